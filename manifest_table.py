HOOK_COMMITS = []
NOT_APPLICABLE = {}
add('C01', 'reference-model oracle over generated executions of the real parser',
    'Exploration: thousands of seeded random interface files are parsed by the real Module.parseString; the projection of the real tree (kinds, names, namespace paths from parent links, every type with qualifiers at every depth, template lists, defaults, bases, flags, per-kind order) must equal the generator model.',
    'Trusts the harness model/renderer of the DOCS.md dialect; constructs outside it are not generated; held = on the executions observed only.', 'DESIGN.md 4/C01')
add('C02', 'reference-model oracle + icontract post-condition on the real instantiate_type',
    'Exploration: template-heavy seeded modules are instantiated by the real instantiate_namespace; every type spelling of every instantiated member (arguments, returns, properties, operators, bases) is compared with an independent capture-free substitution on the generator model; an icontract post-condition on helpers.instantiate_type redoes the substitution on the real Type objects on every call and checks that the input object is not modified.',
    'Trusts vlib/ref_inst.py as the statement of the property; flagged constructs that hit known defects are exercised only by witness probes (known_findings.json).', 'DESIGN.md 4/C02')
add('C03', 'reference-model oracle over extracted binding inventory of generated code',
    'Exploration: seeded models x option sets (top namespace, ignore list, serialization) go through the real PybindWrapper.wrap_file; the emitted module is scanned by an independent bracket-aware extractor and the multiset of bindings (kind, submodule, Python name, arity) must equal the inventory computed from the model; a statement-order scan checks that each submodule variable is defined once and before use.',
    'Trusts vlib/ref_pybind.py naming rules (as stated in the property) and the extractor; order between entities is not constrained.', 'DESIGN.md 4/C03')
add('C08', 'reference-model oracle + icontract post-condition on the real instantiate_name',
    'Exploration: the complete per-namespace content list produced by the real instantiate_namespace (count, product order, names, C++ spellings, typedef instantiations exactly once, pass-through declarations in order) is compared with the reference expansion of the generator model; instantiate_name is monitored by a contract on every call.',
    'Typedef instantiation position inside its namespace is not constrained; lists with clashing instantiated names are a user error and not generated.', 'DESIGN.md 4/C08')
add('C12', 'metamorphic oracle (canonical vs hostile re-layouts) on parser and both generators',
    'Exploration: every model is rendered canonically and in K hostile layouts (whitespace/CRLF/tabs/block and line comments with hostile bodies between any adjacent tokens); projection of the real parse tree, bytes of PybindWrapper.wrap_file and the file tree written by MatlabWrapper.wrap must be identical; a token-pair x gap-class coverage table is reported.',
    'Atomic lexemes (default text, unsigned char, enum class, include header, std:: before pair) are not split; see known findings.', 'DESIGN.md 4/C12')
add('C19', 'deterministic step-counter monitor on pyparsing rule applications over scaled input families',
    'Exploration of growth: rule applications (not wall-clock) of the real Module.parseString for families ns/tt/base/inst/tdef/mix/wide at depths up to 12 (quick) / 32 (thorough) and file sizes up to 80 / 640 declarations must satisfy s(2d)<=6 s(d), s(2n)<=2.6 s(n), an absolute cap, and a per-token bound on random modules.',
    'Bounded restatement of an asymptotic claim; decided over the explored range only.', 'DESIGN.md 4/C19')
