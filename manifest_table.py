HOOK_COMMITS = []
NOT_APPLICABLE = {}
add('C01', 'reference-model oracle over generated executions of the real parser',
    'Exploration: thousands of seeded random interface files are parsed by the real Module.parseString; the projection of the real tree (kinds, names, namespace paths from parent links, every type with qualifiers at every depth, template lists, defaults, bases, flags, per-kind order) must equal the generator model.',
    'Trusts the harness model/renderer of the DOCS.md dialect; constructs outside it are not generated; held = on the executions observed only.', 'DESIGN.md 4/C01')
