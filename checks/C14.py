"""C14 - generation is a pure, repeatable function of inputs and options.

Monitors: sha256 of every output against a serial in-process baseline while one factor varies
(process, PYTHONHASHSEED, locale, working directory / relative paths, pre-populated output
directory, earlier wrap_file calls on the same PybindWrapper, 16 concurrent script processes in
one build directory with injected delays at mkdir/open events); sys.addaudithook log of every
file opened / created by the in-process runs; strace of sampled script runs; inotifywait on the
shared build directory to count the distinct interleavings actually observed.
"""
import hashlib, os, random, shutil, subprocess, sys, tempfile, time
from vlib import spec as S, gen, render, tool, monitors
from vlib.probes import run_probes
from vlib.runner import REPO, VERIF

PID = 'C14'
RULE = ('seeded models x environment variations (8 PYTHONHASHSEED values incl. random, locales C/C.utf8/POSIX, '
        'absolute vs relative paths from another cwd, re-run into a populated directory, histories of 2-5 '
        'wrap_file calls on one PybindWrapper vs fresh wrappers, rounds of 16 concurrent script processes sharing '
        'one build directory and +package folders with seeded delays at mkdir/open); one case = one varied run '
        'compared with the baseline; non-trivial = every varied run; distinct = sha256(input, variation)')
ASSUMPTIONS = ['MatlabWrapper objects are single-use by construction; reuse is exercised for PybindWrapper only',
               'reads of interpreter / package / system files are not inputs of the tool',
               'wrapper reuse with xml_source and equal-named overloads (D18, repaired) is part of the workload']
MIN_EVENTS = {'quick': {'varied_runs': 150, 'audit_events': 300, 'parallel_rounds': 3},
              'thorough': {'varied_runs': 3000, 'audit_events': 5000, 'parallel_rounds': 40}}
HASHSEEDS = ['0', '1', '2', '42', '12345', '4294967295', 'random', 'random']
LOCALES = ['C', 'C.utf8', 'POSIX']


def plan(tier, seed):
    return {'cases': 32 if tier == 'quick' else 400, 'rounds': 4 if tier == 'quick' else 48,
            'watchdog_s': 1500 if tier == 'quick' else 10800}


def make_text(seed):
    r = random.Random(seed)
    knobs = gen.Knobs(items=r.choice([2, 3, 4]), members=r.choice([3, 5]), ns_depth=r.choice([1, 2]))
    g = gen.WildGen(seed, knobs, typedefs=True, typedef_same_ns=True, param_use=0.3, this_use=0.05, special_names=0.1,
                    inst_namesakes=0.3, class_template_p=0.5)
    text = render.render(g.module())
    if r.random() < 0.5:
        # several headers, some of them included more than once (any order-by-hash of the include block shows)
        hs = ['a.h', 'gtsam/geometry/Pose3.h', 'zeta/last.h', 'b/c.h', 'vector', 'my-lib/file_1.h', 'Q.h']
        r.shuffle(hs)
        hs = hs[:r.choice([2, 3, 5])]
        hs = hs + [r.choice(hs)] + ([r.choice(hs)] if r.random() < 0.5 else [])
        text = ''.join('#include <%s>\n' % h for h in hs) + text
    if r.random() < 0.3:
        # a non-ASCII character in a default value (files are UTF-8 whatever the locale says)
        text += 'void unicode%d(string s = "caf\u00e9 \u6f22");\n' % (seed % 71)
    if r.random() < 0.6:
        # classes marked for serialization (state that the wrapper keeps while wrapping a file)
        text += 'namespace ser%d {\n  class Keep%d { Keep%d(); void serialize(); };\n  template<T = {int, double}> class Tmpl%d { void serializable(); T get() const; };\n}\n' % (
            seed % 97, seed % 89, seed % 89, seed % 83)
    return text


def sha_tree(root):
    return tool.tree_hash(tool.read_tree(root))


def script_cmd(kind, src, out, tpl, rel=None):
    if kind == 'pybind':
        return [sys.executable, os.path.join(REPO, 'scripts', 'pybind_wrap.py'), '--src', src, '--module_name', 'modx',
                '--out', out, '--template', tpl, '--ignore']
    return [sys.executable, os.path.join(REPO, 'scripts', 'matlab_wrap.py'), '--src', src, '--module_name', 'modx',
            '--out', out, '--ignore']


def check_input(seed, tier, acc, nvar):
    from gtwrap.pybind_wrapper import PybindWrapper
    from gtwrap.matlab_wrapper import MatlabWrapper
    text = make_text(seed)
    r = random.Random(seed ^ 0xC14)
    root = tempfile.mkdtemp(prefix='verif_c14_')
    vs = []
    try:
        src = os.path.join(root, 'in', 'mod.i')
        os.makedirs(os.path.dirname(src))
        open(src, 'w').write(text)
        tpl = os.path.join(root, 'in', 'tpl.tpl')
        open(tpl, 'w').write(tool.TPL)
        # ---- baseline, in-process, with the audit hook recording every open
        base_dir = os.path.join(root, 'base')
        os.makedirs(base_dir)
        with monitors.FS as fs:
            b1 = tool.outcome(PybindWrapper(module_name='modx', top_module_namespaces=[''], ignore_classes=[],
                                            module_template=tool.TPL).wrap, [src], os.path.join(base_dir, 'out.cpp'))
            b2 = tool.outcome(MatlabWrapper(module_name='modx', ignore_classes=[]).wrap, [src],
                              os.path.join(base_dir, 'toolbox'))
        acc.count('audit_events', len(fs.events))
        if b1[0] != 'ok' or b2[0] != 'ok':
            acc.count('baseline_generation_failed(decided elsewhere)')
            return []
        expected_writes = {os.path.join(base_dir, k) for k in tool.read_tree(base_dir)}
        for w in fs.writes():
            if os.path.isdir(w):
                continue
            if w not in expected_writes:
                vs.append({'what': 'write outside the requested outputs', 'path': w})
        import gtwrap
        pkg = os.path.dirname(gtwrap.__file__)
        for p in fs.reads():
            ap = os.path.abspath(p)
            if ap in (src, tpl) or ap.startswith(pkg) or ap.endswith(('.py', '.pyc')) or ap.startswith(sys.prefix) \
                    or ap.startswith(sys.base_prefix) or ap.startswith('/usr/') or ap.startswith('/etc/'):
                continue
            vs.append({'what': 'read of a file that is neither input nor bundled template', 'path': ap})
        base_py = open(os.path.join(base_dir, 'out.cpp')).read()
        base_ml = tool.tree_hash({k: v for k, v in tool.read_tree(os.path.join(base_dir, 'toolbox')).items()})
        # ---- variations through the scripts (fresh processes)
        variations = []
        for hs in r.sample(HASHSEEDS, min(len(HASHSEEDS), nvar)):
            variations.append({'PYTHONHASHSEED': hs, 'LC_ALL': r.choice(LOCALES), 'cwd': r.choice(['abs', 'rel']),
                               'populated': r.random() < 0.3, 'force_ascii': r.random() < 0.25})
        for vi, v in enumerate(variations):
            for kind in ('pybind', 'matlab'):
                wd = os.path.join(root, 'v%d_%s' % (vi, kind))
                os.makedirs(wd)
                out = os.path.join(wd, 'out.cpp' if kind == 'pybind' else 'toolbox')
                env = dict(os.environ)
                env.update({'PYTHONPATH': REPO, 'PYTHONHASHSEED': v['PYTHONHASHSEED'], 'LC_ALL': v['LC_ALL'], 'LANG': v['LC_ALL']})
                # other things a pure function of inputs and options cannot depend on: home / temp directory, time zone, user
                home = os.path.join(root, 'home%d' % vi)
                os.makedirs(os.path.join(home, 'tmp'), exist_ok=True)
                env.update({'HOME': home, 'TMPDIR': os.path.join(home, 'tmp'), 'TZ': ['UTC', 'Asia/Tokyo', 'America/New_York'][vi % 3],
                            'USER': 'user%d' % vi, 'LOGNAME': 'user%d' % vi, 'HOSTNAME': 'host%d' % vi})
                if v.get('force_ascii'):
                    # no locale coercion, no UTF-8 mode: the locale encoding really is ASCII (D24, repaired)
                    env.update({'LC_ALL': 'C', 'LANG': 'C', 'PYTHONCOERCECLOCALE': '0', 'PYTHONUTF8': '0'})
                    acc.count('var:forced_ascii_locale')
                if v['cwd'] == 'rel':
                    cwd = wd
                    cmd = script_cmd(kind, os.path.relpath(src, wd), os.path.relpath(out, wd), os.path.relpath(tpl, wd))
                elif vi % 3 == 2:
                    # the inputs reached through a symbolic link to their directory
                    link = os.path.join(root, 'link%d_%s' % (vi, kind))
                    os.symlink(os.path.dirname(src), link)
                    cwd = root
                    cmd = script_cmd(kind, os.path.join(link, 'mod.i'), out, os.path.join(link, 'tpl.tpl'))
                    acc.count('var:inputs_through_symlink')
                else:
                    cwd = root
                    cmd = script_cmd(kind, src, out, tpl)
                if v['populated']:
                    # an earlier run that wrote the same output path(s) with another option (serialization flipped:
                    # same set of files, other content), then the run under test: what is left must be its output
                    first = cmd + ['--use-boost-serialization'] if r.random() < 0.6 else cmd
                    subprocess.run(first, cwd=cwd, env=env, stdout=subprocess.PIPE, stderr=subprocess.PIPE, timeout=600)
                    acc.count('var:earlier_run_other_option' if first is not cmd else 'var:earlier_run_same')
                p = subprocess.run(cmd, cwd=cwd, env=env, stdout=subprocess.PIPE, stderr=subprocess.PIPE, timeout=600)
                acc.count('varied_runs')
                acc.count('var:hashseed=%s' % v['PYTHONHASHSEED'])
                acc.count('var:locale=%s' % v['LC_ALL'])
                acc.count('var:cwd=%s' % v['cwd'])
                acc.count('var:populated=%s' % v['populated'])
                acc.case(hashlib.sha256((text + repr(v) + kind).encode()).hexdigest()[:16], True)
                if p.returncode != 0:
                    vs.append({'what': '%s script failed under a variation although the baseline succeeded' % kind,
                               'variation': v, 'stderr': p.stderr.decode('utf8', 'replace')[-300:]})
                    continue
                if kind == 'pybind':
                    got = open(out).read()
                    same = got == base_py
                    extra = sorted(set(os.listdir(wd)) - {'out.cpp'})
                else:
                    same = tool.tree_hash(tool.read_tree(out)) == base_ml
                    extra = sorted(set(os.listdir(wd)) - {'toolbox'})
                if not same:
                    vs.append({'what': '%s output differs from the baseline under a variation' % kind, 'variation': v})
                if extra:
                    vs.append({'what': '%s run created files outside the requested output' % kind, 'files': extra})
                left = [os.path.join(dp, f) for dp, _, fs_ in os.walk(home) for f in fs_]
                if left:
                    vs.append({'what': '%s run left files in the home / temp directory' % kind, 'files': left[:4]})
                stray_src = sorted(set(os.listdir(os.path.dirname(src))) - {'mod.i', 'tpl.tpl'})
                if stray_src:
                    vs.append({'what': '%s run wrote next to its input' % kind, 'files': stray_src[:4]})
        # ---- wrapper reuse: history of wrap_file calls on one PybindWrapper
        texts = [make_text(seed + 1000 * k) for k in range(r.choice([2, 3, 5]))] + [text]
        xml = ''
        if r.random() < 0.5:
            # Doxygen XML with two equal-named overloads: the docstring parser keeps per-overload state
            xml = os.path.join(root, 'xml')
            os.makedirs(xml)
            open(os.path.join(xml, 'index.xml'), 'w').write('<?xml version="1.0"?><doxygenindex><compound refid="classDocA" kind="class"><name>DocA</name></compound></doxygenindex>')
            member = '<memberdef kind="function" id="a%d"><name>f</name><argsstring>(x)</argsstring><param><declname>x</declname></param><briefdescription><para>doc %d</para></briefdescription><detaileddescription/></memberdef>'
            open(os.path.join(xml, 'classDocA.xml'), 'w').write('<?xml version="1.0"?><doxygen><compounddef id="classDocA" kind="class"><sectiondef kind="public-func">' + member % (1, 1) + member % (2, 2) + '</sectiondef></compounddef></doxygen>')
            doc_text = 'class DocA { void f(int x); void f(double x); };\n'
            texts = [doc_text] + texts + [doc_text]
            acc.count('var:reused_wrapper_with_xml')
        shared = PybindWrapper(module_name='modx', top_module_namespaces=[''], ignore_classes=[],
                               module_template=tool.TPL, use_boost_serialization=r.random() < 0.5, xml_source=xml)
        ser = shared.use_boost_serialization
        for ti, t in enumerate(texts):
            a = tool.outcome(tool.pybind_text, t, ('',), (), ser, 'modx', tool.TPL, xml, None, shared)
            b = tool.outcome(tool.pybind_text, t, ('',), (), ser, 'modx', tool.TPL, xml)
            # reference from a fresh process: state kept in the module / class (not the object) is visible only there
            tp = os.path.join(root, 'hist%d.i' % ti)
            open(tp, 'w').write(t)
            code = ('import sys, hashlib; sys.path.insert(0, %r); sys.path.insert(0, %r); from vlib import tool; '
                    'r = tool.outcome(tool.pybind_text, open(%r).read(), ("",), (), %r, "modx", tool.TPL, %r); '
                    'print("REF", r[0], hashlib.sha256(r[1].encode()).hexdigest())' % (VERIF, REPO, tp, ser, xml))
            pr = subprocess.run([sys.executable, '-c', code], stdout=subprocess.PIPE, stderr=subprocess.PIPE, timeout=600,
                                env=dict(os.environ, PYTHONPATH=REPO))
            ref = pr.stdout.decode().strip().split('\n')[-1].split(' ')
            acc.count('varied_runs', 2)
            acc.count('var:reused_wrapper')
            acc.count('var:new_wrapper_in_used_process')
            acc.case(hashlib.sha256((t + 'reuse').encode()).hexdigest()[:16], True)
            if a != b:
                vs.append({'what': 'output of a reused PybindWrapper differs from a fresh one',
                           'reused': str(a)[:200], 'fresh': str(b)[:200]})
                break
            if len(ref) == 3 and ref[0] == 'REF':
                mine = (b[0], hashlib.sha256(b[1].encode()).hexdigest())
                if (ref[1], ref[2]) != mine:
                    vs.append({'what': 'a new PybindWrapper in a process that wrapped other files before gives a different '
                                       'output than a fresh process', 'serialization': ser})
                    break
        for v in vs:
            v['text'] = text[:2000]
        if seed % 8 == 0:
            acc.sample({'text': text[:400], 'variations': variations[:2]})
    finally:
        shutil.rmtree(root, ignore_errors=True)
    return vs


def parallel_round(seed, acc, nproc=16):
    """16 script processes started together in one build directory."""
    root = tempfile.mkdtemp(prefix='verif_c14p_')
    vs = []
    try:
        r = random.Random(seed)
        build = os.path.join(root, 'build')
        serial = os.path.join(root, 'serial')
        os.makedirs(build)
        os.makedirs(serial)
        tpl = os.path.join(root, 'tpl.tpl')
        open(tpl, 'w').write(tool.TPL)
        jobs = []
        for i in range(nproc):
            # modules share namespace (package folder) names but have disjoint class names
            body = ''.join('  class K%d_%d { K%d_%d(); int f%d(double x = %d) const; };\n  double g%d_%d(int a);\n' % (
                i, j, i, j, j, j, i, j) for j in range(r.choice([1, 2, 3])))
            text = 'namespace shared {\nnamespace deep {\n%s}\n  enum E%d { a, b };\n}\nclass G%d { G%d(); };\n' % (body, i, i, i)
            src = os.path.join(root, 'm%d.i' % i)
            open(src, 'w').write(text)
            kind = 'matlab' if i % 4 != 3 else 'pybind'
            jobs.append((i, kind, src))
        env0 = dict(os.environ)
        env0['PYTHONPATH'] = REPO
        # serial reference
        for i, kind, src in jobs:
            out = os.path.join(serial, 'toolbox') if kind == 'matlab' else os.path.join(serial, 'm%d.cpp' % i)
            cmd = script_cmd(kind, src, out, tpl)
            cmd[cmd.index('modx')] = 'mod%d' % i
            p = subprocess.run(cmd, cwd=root, env=env0, stdout=subprocess.PIPE, stderr=subprocess.PIPE, timeout=600)
            if p.returncode != 0:
                acc.inconclusive.append('serial reference run failed: ' + p.stderr.decode('utf8', 'replace')[-200:])
                return []
        # concurrent, with inotify watching and delay injection
        evlog = os.path.join(root, 'events.log')
        ino = subprocess.Popen(['inotifywait', '-m', '-r', '-q', '-e', 'create', '-e', 'close_write', '--format', '%e %w%f',
                                '-o', evlog, build], stdout=subprocess.DEVNULL, stderr=subprocess.DEVNULL)
        time.sleep(0.3)
        env = dict(env0)
        env['PYTHONPATH'] = os.pathsep.join([os.path.join(VERIF, 'vlib', 'sitehook'), REPO])
        env['VERIF_DELAY'] = '%d:%d' % (seed, r.choice([2, 10, 30]))
        procs = []
        for i, kind, src in jobs:
            out = os.path.join(build, 'toolbox') if kind == 'matlab' else os.path.join(build, 'm%d.cpp' % i)
            cmd = script_cmd(kind, src, out, tpl)
            cmd[cmd.index('modx')] = 'mod%d' % i
            procs.append((i, kind, subprocess.Popen(cmd, cwd=root, env=env, stdout=subprocess.PIPE, stderr=subprocess.PIPE)))
        for i, kind, p in procs:
            try:
                so, se = p.communicate(timeout=600)
            except subprocess.TimeoutExpired:
                p.kill()
                acc.inconclusive.append('parallel script run exceeded the 600 s watchdog')
                continue
            if p.returncode != 0:
                vs.append({'what': 'script failed when run concurrently with others in one build directory',
                           'job': (i, kind), 'stderr': se.decode('utf8', 'replace')[-400:]})
        time.sleep(0.2)
        ino.terminate()
        ino.wait(timeout=10)
        a, b = tool.read_tree(serial), tool.read_tree(build)
        acc.count('parallel_rounds')
        acc.count('parallel_files_compared', len(a))
        if a != b:
            ks = sorted(set(a) | set(b))
            k = next(k for k in ks if a.get(k) != b.get(k))
            vs.append({'what': 'concurrent runs produced a different tree than serial runs', 'file': k,
                       'in_serial': k in a, 'in_parallel': k in b})
        if os.path.exists(evlog):
            ev = [l.strip() for l in open(evlog, errors='replace') if l.strip()]
            acc.count('inotify_events', len(ev))
            # interleaving signature: the order in which package folders / wrapper files were created
            sig = hashlib.sha256('\n'.join(e.replace(root, '') for e in ev if 'CREATE' in e).encode()).hexdigest()[:12]
            acc.nontrivial.add('interleaving:' + sig)
            acc.count('interleavings_observed(per round, distinct counted in distinct_nontrivial)')
        acc.case('par:%d' % seed, True)
    finally:
        shutil.rmtree(root, ignore_errors=True)
    return vs


def worker(ctx):
    acc = ctx.acc
    nvar = 3 if ctx.tier == 'quick' else 8
    for i in ctx.my_cases():
        seed = ctx.case_seed(i)
        for v in check_input(seed, ctx.tier, acc, nvar)[:3]:
            acc.violation({'kind': 'input', 'case_seed': seed, 'tier': ctx.tier}, v)
    # parallel rounds use all cores themselves: only a few workers run them, one after another
    if ctx.index < 2:
        for j in range(ctx.index, ctx.plan['rounds'], 2):
            seed = ctx.case_seed(50000 + j)
            for v in parallel_round(seed, acc)[:3]:
                acc.violation({'kind': 'parallel', 'case_seed': seed}, v)


def probes(ctx):
    run_probes(ctx, PID, {'reuse-xml': probe_reuse_xml, 'locale-ascii': probe_locale_ascii})


def probe_reuse_xml(witness, ctx):
    """two wrap_file calls on one wrapper with XML docs and equal-named overloads"""
    from gtwrap.pybind_wrapper import PybindWrapper
    root = tempfile.mkdtemp(prefix='verif_c14x_')
    try:
        open(os.path.join(root, 'index.xml'), 'w').write('<?xml version="1.0"?><doxygenindex><compound refid="classA" kind="class"><name>A</name></compound></doxygenindex>')
        member = '<memberdef kind="function" id="a%d"><name>f</name><argsstring>(x)</argsstring><param><declname>x</declname></param><briefdescription><para>doc %d</para></briefdescription><detaileddescription/></memberdef>'
        open(os.path.join(root, 'classA.xml'), 'w').write('<?xml version="1.0"?><doxygen><compounddef id="classA" kind="class"><sectiondef kind="public-func">' + member % (1, 1) + member % (2, 2) + '</sectiondef></compounddef></doxygen>')
        text = 'class A { void f(int x); void f(double x); };'
        w = PybindWrapper(module_name='m', top_module_namespaces=[''], ignore_classes=[], module_template=tool.TPL, xml_source=root)
        first = tool.outcome(w.wrap_file, text, 'm', [])
        second = tool.outcome(w.wrap_file, text, 'm', [])
        if first == second:
            return None
        return 'second wrap_file on the same wrapper: %s' % (second[1].split(':')[0] if second[0] == 'exc' else 'different output')
    finally:
        shutil.rmtree(root, ignore_errors=True)


def probe_locale_ascii(witness, ctx):
    root = tempfile.mkdtemp(prefix='verif_c14l_')
    try:
        src = os.path.join(root, 'mod.i')
        open(src, 'w', encoding='utf-8').write('class A { A(string s = "caf\u00e9"); };\n')
        env = dict(os.environ, PYTHONPATH=REPO, LC_ALL='C', LANG='C', PYTHONCOERCECLOCALE='0', PYTHONUTF8='0')
        outs = []
        for kind in ('pybind', 'matlab'):
            tpl = os.path.join(root, 'tpl.tpl')
            open(tpl, 'w').write(tool.TPL)
            p = subprocess.run(script_cmd(kind, src, os.path.join(root, 'out_' + kind), tpl), cwd=root, env=env,
                               stdout=subprocess.PIPE, stderr=subprocess.PIPE, timeout=600)
            outs.append((kind, p.returncode, p.stderr.decode('utf8', 'replace').strip().split('\n')[-1][:60] if p.returncode else ''))
        bad = [o for o in outs if o[1] != 0]
        if not bad:
            return None
        return '; '.join('%s script fails: %s' % (k, e.split(':')[0]) for k, rc, e in bad)
    finally:
        shutil.rmtree(root, ignore_errors=True)


def replay(case, ctx):
    if 'probe' in case:
        h = {'reuse-xml': probe_reuse_xml, 'locale-ascii': probe_locale_ascii}[case['probe']]
        s = h(case['witness'], ctx)
        return [{'observed': s}] if s else []
    if case['kind'] == 'input':
        return check_input(case['case_seed'], case['tier'], ctx.acc, 8)
    return parallel_round(case['case_seed'], ctx.acc)
