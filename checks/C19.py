"""C19 - parsing cost stays polynomial in nesting depth and file size.

Bounded restatement decided with a deterministic monitor: the number of grammar-rule
applications s (calls of pyparsing ParserElement._parseNoCache, i.e. rule attempts not served
by the packrat cache) while the real Module.parseString runs.
  depth families:  s(2d) <= 6*s(d) for d >= 3 (a quadratic gives <= 4, an exponential 2^d),
                   and s(d) <= ABS_CAP
  size family:     s(2n) <= 2.6*s(n)
  random inputs:   s <= 3000 * tokens + 50000
CPU time is recorded for information only; no wall-clock number is a verdict.
"""
import os, random, time
from vlib import monitors, render, gen, spec as S

PID = 'C19'
RULE = ('scaled input families ns(d) namespace nesting, tt(d) template-argument nesting in return and '
        'parameter types, base(d) templated-base nesting, inst(d) nested templates in instantiation lists, '
        'tdef(d) typedef argument nesting, mix(d), decl(n) file size; plus seeded random modules for the '
        'per-token bound; each (family, size) is one case; non-trivial = size >= 3; distinct = (family,size) '
        'or text hash')
ASSUMPTIONS = ['asymptotic behaviour is not decidable by finite runs: what is decided is growth over the explored range',
               'step counts are deterministic for a given input and pyparsing version (3.1.1 installed)']
ABS_CAP = 2_500_000
MIN_EVENTS = {'quick': {'rule_applications': 100000}, 'thorough': {'rule_applications': 1000000}}


def plan(tier, seed):
    return {'cases': 1, 'watchdog_s': 1200 if tier == 'quick' else 7200}


def ns(d, v=0):
    body = ['class A { void f(int x) const; };', 'template<T = {double, int}> class A { T f(const T& x) const; };',
            'enum E { a, b }; double g(int x = 3);'][v % 3]
    return ''.join('namespace n%d {\n' % i for i in range(d)) + body + '\n' + '}' * d


def nest(d, names='V'):
    t = 'int'
    for i in range(d):
        t = 'ns%d::%s%d<%s>' % (i, names, i, t)
    return t


def tt(d, v=0):
    t = nest(d)
    return ['class A { %s f(const %s& x, double y); };' % (t, t),
            '%s g(%s a, const %s* b = nullptr);' % (t, t, t),
            'class A { static pair<%s, int> f(); %s prop; };' % ('int', t)][v % 3]


def base(d, v=0):
    return 'class A : %s { };' % nest(d, 'B')


def inst(d, v=0):
    return 'template<T = {%s, double}> class A { T f(); };' % nest(d, 'I')


def tdef(d, v=0):
    return 'template<T> class A { T f(); };\ntypedef A<%s> AT;' % nest(d, 'Q')


def wide(d, v=0):
    """template arguments d wide and 3 deep."""
    t = 'X<' + ', '.join('Y%d<Z<int>>' % i for i in range(d)) + '>'
    return 'class A { void f(%s a); };' % t


def mix(d, v=0):
    return ''.join('namespace m%d {\n' % i for i in range(d)) + \
        'template<T = {%s}> virtual class A : %s { %s f(const %s& x = %s()) const; };' % (
            nest(d, 'I'), nest(d, 'B'), nest(d), nest(d), nest(d)) + '\n' + '}' * d


def decl(n, v=0):
    return '\n'.join(
        'class C%d { C%d(); C%d(int a, const std::vector<double>& b = {1,2}); void f%d(const C%d& o) const; '
        'static C%d Make(double x); double p; };' % (i, i, i, i, i, i) for i in range(n))


def args(d, v=0):
    """d long (templated) arguments of one callable."""
    a = ', '.join('const ns::V%d<W<int>, double>& a%d%s' % (i, i, ' = ns::V%d<W<int>, double>()' % i if v == 1 else '')
                  for i in range(d))
    return ['class A { void f(%s) const; };' % a, 'class A { A(%s); };' % a, 'void g(%s);' % a][v % 3]


def enumr(d, v=0):
    return 'enum class E { %s };' % ', '.join('value_number_%d' % i for i in range(4 * d))


def instvals(d, v=0):
    return 'template<T = {%s}> class A { T f(const T& x); };' % ', '.join('ns::I%d<double>' % i for i in range(2 * d))


def overl(d, v=0):
    return 'class A { %s };' % ' '.join('void f(int a%d, const ns::K%d& b);' % (i, i) for i in range(2 * d))


def tdefs(d, v=0):
    return 'template<T> class A { T f(); };\n' + '\n'.join('typedef A<ns::Q%d<int>> A%d;' % (i, i) for i in range(2 * d))


def tparams(d, v=0):
    return 'template<%s> class A { void f(); };' % ', '.join('T%d = {int, double}' % i for i in range(min(d, 8)))


FAMILIES = {'ns': ns, 'tt': tt, 'base': base, 'inst': inst, 'tdef': tdef, 'mix': mix, 'wide': wide,
            'args': args, 'enumr': enumr, 'instvals': instvals, 'overl': overl, 'tdefs': tdefs}
# families whose size grows linearly with d (number of arguments, enumerators, list values, overloads, typedefs):
# doubling d may at most triple the work
LINEAR = ('args', 'enumr', 'instvals', 'overl', 'tdefs')


def measure(text):
    import gtwrap.interface_parser as parser
    t0 = time.process_time()
    try:
        _, s = monitors.STEPS.measure(lambda: parser.Module.parseString(text), cap=ABS_CAP)
        return s, time.process_time() - t0, None
    except monitors.StepBudgetExceeded:
        return ABS_CAP + 1, time.process_time() - t0, 'cap'
    except Exception as e:
        return None, 0, '%s: %s' % (type(e).__name__, str(e)[:200])


def worker(ctx):
    monitors.STEPS.install()
    acc = ctx.acc
    tier = ctx.tier
    depths = [1, 2, 3, 4, 5, 6, 8, 10, 12] if tier == 'quick' else [1, 2, 3, 4, 5, 6, 8, 10, 12, 16, 20, 24, 32]
    jobs = []
    for fam in sorted(FAMILIES):
        for v in range(1 if tier == 'quick' and fam not in ('ns', 'tt', 'args') else 3):
            jobs.append(('depth', fam, v))
    jobs.append(('size', 'decl', 0))
    jobs.append(('files', 'matlab', 0))
    for fam in ('ns', 'tt', 'mix'):
        jobs.append(('reject', fam, 0))
    nrand = 48 if tier == 'quick' else 800
    for j in range(nrand):
        jobs.append(('rand', j, 0))
    for idx in range(ctx.index, len(jobs), ctx.nworkers):
        kind, fam, v = jobs[idx]
        if kind == 'depth':
            series = {}
            for d in depths:
                if fam == 'mix' and d > 16:
                    continue
                text = FAMILIES[fam](d, v)
                s, cpu, err = measure(text)
                acc.case('%s/%d/%d' % (fam, v, d), d >= 3)
                if err and err != 'cap':
                    acc.violation({'kind': 'depth', 'family': fam, 'variant': v, 'd': d},
                                  {'what': 'family member rejected', 'error': err, 'text': text[:500]})
                    break
                series[d] = s
                acc.count('rule_applications', s)
                acc.notes.append('%s/%d d=%d steps=%d cpu=%.2fs' % (fam, v, d, s, cpu)) if d == depths[-1] else None
                if s > ABS_CAP:
                    acc.violation({'kind': 'depth', 'family': fam, 'variant': v, 'd': d},
                                  {'what': 'rule applications exceed the absolute cap', 'cap': ABS_CAP,
                                   'series': series, 'text': text[:500]})
                    break
            for d in series:
                if d >= 3 and 2 * d in series and series[2 * d] > 6 * series[d]:
                    acc.violation({'kind': 'depth', 'family': fam, 'variant': v, 'd': d},
                                  {'what': 's(2d) > 6*s(d): super-polynomial growth', 'series': series})
                    break
                if fam in LINEAR and d >= 3 and 2 * d in series and series[2 * d] > 3 * series[d]:
                    acc.violation({'kind': 'depth', 'family': fam, 'variant': v, 'd': d},
                                  {'what': 's(2d) > 3*s(d) in a family whose size is linear in d', 'series': series})
                    break
            if ctx.index == 0 and idx == ctx.index:
                acc.sample({'family': fam, 'steps_by_depth': series})
        elif kind == 'reject':
            # rejecting a nested file (syntax error after the nested part) must stay polynomial as well, and must not
            # change the cost of later parses in the process (h1_C19_1: memoisation switched off in an error path)
            import gtwrap.interface_parser as parser
            rej, before, after = {}, {}, {}
            bad = None
            for d in (3, 6, 12):
                text = FAMILIES[fam](d, v)
                before[d] = measure(text)[0]
                monitors.STEPS.steps = 0
                monitors.STEPS.cap = ABS_CAP
                try:
                    parser.Module.parseString(text + '\nclass ;\n')
                    bad = {'what': 'text with a syntax error accepted (decided by C07)'}
                except monitors.StepBudgetExceeded:
                    rej[d] = ABS_CAP + 1
                except Exception:
                    rej[d] = monitors.STEPS.steps
                finally:
                    monitors.STEPS.cap = None
                after[d] = measure(text)[0]
                acc.case('reject/%s/%d' % (fam, d), True)
                acc.count('rejections_measured')
                acc.count('rule_applications', rej.get(d, 0))
                if rej.get(d, 0) > ABS_CAP:
                    bad = {'what': 'rule applications while rejecting exceed the absolute cap', 'cap': ABS_CAP}
                elif after[d] is None or before[d] is None or after[d] > 2 * before[d]:
                    bad = {'what': 'a rejected parse changes the cost of the next parse of a valid text'}
                elif d >= 6 and d // 2 in rej and rej[d] > 6 * rej[d // 2]:
                    bad = {'what': 'r(2d) > 6*r(d): super-polynomial growth of the work to reject'}
                if bad:
                    break
            if bad and 'decided by C07' not in bad['what']:
                bad.update({'reject_steps': rej, 'accept_steps_before': before, 'accept_steps_after': after})
                acc.violation({'kind': 'reject', 'family': fam, 'variant': v}, bad)
        elif kind == 'files':
            # the same declarations spread over k interface files: the MATLAB generator reads the list as one text, so
            # its parsing work must stay close to that of the single file and grow linearly with k
            import shutil, tempfile
            from gtwrap.matlab_wrapper import MatlabWrapper
            series, single = {}, {}
            tmp = tempfile.mkdtemp(prefix='verif_c19_')
            try:
                for k in ([2, 4, 8, 16] if tier == 'quick' else [2, 4, 8, 16, 32, 64]):
                    parts = ['namespace part%d {\n%s\n}\n' % (i, '\n'.join(
                        'class K%d_%d { K%d_%d(); void f(int a, const std::vector<double>& b = {1,2}) const; double p; };' % (i, j, i, j)
                        for j in range(3))) for i in range(k)]
                    paths = []
                    for i, ptxt in enumerate(parts):
                        pth = os.path.join(tmp, 'k%d_f%d.i' % (k, i))
                        open(pth, 'w').write(ptxt)
                        paths.append(pth)
                    one = os.path.join(tmp, 'k%d_all.i' % k)
                    open(one, 'w').write(''.join(parts))
                    for label, srcs, sink in (('list', paths, series), ('single', [one], single)):
                        out = os.path.join(tmp, 'out_%s_%d' % (label, k))
                        try:
                            _, st = monitors.STEPS.measure(
                                lambda: MatlabWrapper(module_name='m', ignore_classes=[]).wrap(list(srcs), path=out), cap=ABS_CAP * 4)
                        except monitors.StepBudgetExceeded:
                            st = ABS_CAP * 4 + 1
                        sink[k] = st
                        acc.count('rule_applications', min(st, ABS_CAP))
                    acc.case('files/%d' % k, True)
                    if series[k] > 1.6 * single[k] + 2000:
                        acc.violation({'kind': 'files', 'k': k}, {'what': 'wrapping k files costs more parsing work than wrapping the same text as one file',
                                                                  'list': series, 'single': single})
                        break
                for k in series:
                    if 2 * k in series and series[2 * k] > 2.6 * series[k]:
                        acc.violation({'kind': 'files', 'k': k}, {'what': 'parsing work s(2k) > 2.6*s(k) in the number of files', 'series': series})
                        break
                acc.sample({'family': 'files', 'steps_list': series, 'steps_single': single})
            finally:
                shutil.rmtree(tmp, ignore_errors=True)
        elif kind == 'size':
            sizes = [10, 20, 40, 80] if tier == 'quick' else [10, 20, 40, 80, 160, 320, 640]
            series = {}
            for n in sizes:
                s, cpu, err = measure(decl(n))
                acc.case('decl/%d' % n, True)
                series[n] = s
                acc.count('rule_applications', min(s or 0, ABS_CAP))
                if s is None or s > ABS_CAP * 4:
                    break
            for n in series:
                if 2 * n in series and series[2 * n] > 2.6 * series[n]:
                    acc.violation({'kind': 'size', 'n': n}, {'what': 's(2n) > 2.6*s(n)', 'series': series})
                    break
            acc.sample({'family': 'decl', 'steps_by_size': series})
        else:
            seed = ctx.case_seed(fam)
            g = gen.WildGen(seed, gen.Knobs.thorough() if tier == 'thorough' else gen.Knobs.quick(), typedefs=True)
            mod = g.module()
            text = render.render(mod)
            ntok = len(render.tokens(mod))
            s, cpu, err = measure(text)
            acc.case('rand/%d' % seed, ntok > 30)
            if err and err != 'cap':
                acc.notes.append('random module rejected (decided by C01, not here): %s' % err)
                continue
            acc.count('rule_applications', s)
            acc.count('random_tokens', ntok)
            if s > 3000 * ntok + 50000:
                acc.violation({'kind': 'rand', 'case_seed': seed, 'tier': tier},
                              {'what': 'rule applications per token above bound', 'steps': s, 'tokens': ntok})


def replay(case, ctx):
    monitors.STEPS.install()
    if case['kind'] == 'depth':
        out = {}
        for d in (case['d'], 2 * case['d']):
            out[d] = measure(FAMILIES[case['family']](d, case['variant']))[0]
        if out[2 * case['d']] > 6 * out[case['d']] or max(out.values()) > ABS_CAP:
            return [{'series': out}]
        return []
    if case['kind'] == 'reject':
        import gtwrap.interface_parser as parser
        out = {}
        for d in (3, 6):
            text = FAMILIES[case['family']](d, case['variant'])
            a = measure(text)[0]
            monitors.STEPS.steps = 0
            try:
                parser.Module.parseString(text + '\nclass ;\n')
            except Exception:
                pass
            out[d] = (a, monitors.STEPS.steps, measure(text)[0])
        bad = out[6][1] > 6 * out[3][1] or any(c is None or c > 2 * a for a, _, c in out.values())
        return [{'accept_reject_accept_steps': out}] if bad else []
    if case['kind'] == 'size':
        a, b = measure(decl(case['n']))[0], measure(decl(2 * case['n']))[0]
        return [{'series': {case['n']: a, 2 * case['n']: b}}] if b > 2.6 * a else []
    g = gen.WildGen(case['case_seed'], gen.Knobs.thorough() if case['tier'] == 'thorough' else gen.Knobs.quick(), typedefs=True)
    mod = g.module()
    s = measure(render.render(mod))[0]
    n = len(render.tokens(mod))
    return [{'steps': s, 'tokens': n}] if s > 3000 * n + 50000 else []
