"""C07 - input is either fully understood or loudly rejected, never half-used.

Monitors
 (a) token accounting: for every accepted input the multiset of lexemes outside comments must equal
     the multiset of lexemes of the *un-parsed* real tree (project -> render), independent of the
     generator model so it applies to corrupted text too;
 (b) every entry point (Module.parseString, PybindWrapper.wrap, wrap_submodule, MatlabWrapper.wrap,
     both scripts as subprocesses) is driven with valid and corrupted inputs;
 (c) a failing run must leave a pre-filled output location byte-identical and create nothing
     (before/after sha256 snapshot + sys.addaudithook write log);
 (d) termination: parse-step budget (3000 rule applications per token + 50000).
"""
import hashlib, os, random, re, shutil, subprocess, sys, tempfile
from collections import Counter
from vlib import spec as S, gen, render, project, tool, lexer, monitors
from vlib.probes import run_probes
from vlib.runner import REPO

PID = 'C07'
RULE = ('seeded valid modules and token-level corruptions of them (delete, duplicate, swap adjacent, truncate, '
        'insert stray token, replace/unbalance bracket, misspell keyword, unterminated or misplaced /* */, '
        'glue two tokens) through parser, both generators and both scripts; one case = one input text; '
        'non-trivial = corrupted input; distinct = sha256 of the text')
ASSUMPTIONS = ['any exception type / non-zero exit status counts as a loud rejection',
               'information the tree does not keep by design: enum vs enum class/struct, optional std:: before pair',
               'qualifier tokens inside typedef / instantiation-list arguments are a known finding (not generated)']
MIN_EVENTS = {'quick': {'accepted_token_accounting': 150, 'rejected_runs_fs_checked': 1500, 'script_runs': 24},
              'thorough': {'accepted_token_accounting': 3000, 'rejected_runs_fs_checked': 30000, 'script_runs': 300}}
STRAY = [';', '}', '{', ')', '(', ',', '<', '>', '::', 'const', '*', '&', '@', '=', 'x', '7', 'class', 'static',
         'virtual', 'template', 'typedef', 'namespace', 'enum', 'operator', ':', '__', '#include', 'pair', '[', ']',
         '"', "'", '=0', 'unsigned', 'This', '...', '~', '!', '#']
MISSPELL = {'class': 'clas', 'namespace': 'namespce', 'template': 'tempalte', 'virtual': 'virtul',
            'static': 'statik', 'const': 'cosnt', 'operator': 'operater', 'typedef': 'typdef',
            '#include': '#includ', 'enum': 'enun', 'pair': 'pare', 'enum class': 'enum clas',
            'unsigned char': 'unsigned  char'}
QUALS = {'const', '*', '&', '@'}


def plan(tier, seed):
    return {'cases': 130 if tier == 'quick' else 2000, 'corruptions': 12 if tier == 'quick' else 30,
            'scripts': 40 if tier == 'quick' else 600, 'watchdog_s': 1500 if tier == 'quick' else 10800}


def make_model(seed):
    r = random.Random(seed)
    knobs = gen.Knobs(items=r.choice([1, 2, 3]), members=r.choice([2, 4]), ns_depth=r.choice([0, 1, 2]),
                      params=3, type_depth=2)
    return gen.WildGen(seed, knobs, typedefs=True, param_use=0.2, this_use=0.05, overloads=0.2, reopen_ns=0.2).module()


def corrupt(toks, r):
    """-> (kind, new token text list)"""
    t = [x for x, _ in toks]
    n = len(t)
    kind = r.choice(['delete', 'duplicate', 'swap', 'truncate', 'insert', 'bracket', 'misspell', 'comment',
                     'glue', 'delete', 'insert', 'truncate', 'separator', 'separator', 'rename'])
    i = r.randrange(n)
    if kind == 'delete':
        del t[i]
    elif kind == 'duplicate':
        t.insert(i, t[i])
    elif kind == 'swap' and n > 1:
        i = r.randrange(n - 1)
        t[i], t[i + 1] = t[i + 1], t[i]
    elif kind == 'truncate':
        t = t[:r.randrange(1, n)] if n > 1 else t
    elif kind == 'insert':
        t.insert(i, r.choice(STRAY))
    elif kind == 'bracket':
        idx = [j for j, x in enumerate(t) if x in '(){}<>[]' and len(x) == 1]
        if idx:
            j = r.choice(idx)
            if r.random() < 0.5:
                del t[j]
            else:
                t[j] = r.choice([c for c in '(){}<>' if c != t[j]])
        else:
            kind = 'delete'
            del t[i]
    elif kind == 'misspell':
        idx = [j for j, x in enumerate(t) if x in MISSPELL]
        if idx:
            j = r.choice(idx)
            t[j] = MISSPELL[t[j]]
        else:
            t.insert(i, 'clas')
    elif kind == 'comment':
        x = r.random()
        if x < 0.4:
            t.insert(i, '/*')                      # unterminated
        elif x < 0.7:
            j = r.randrange(i, n)
            t.insert(j + 1, '*/')
            t.insert(i, '/*')                      # a region commented out
        else:
            t.insert(i, '*/')                      # stray closer
    elif kind == 'rename':
        # one occurrence of an identifier misspelled (a typedef then names a template nobody declares, a
        # constructor no longer carries its class name, ...): either still a valid file or loudly rejected
        idx = [j for j, x in enumerate(t) if re.match(r'^[A-Za-z_]\w*$', x) and x not in MISSPELL and
               x not in ('const', 'static', 'virtual', 'class', 'enum', 'struct', 'namespace', 'typedef', 'template',
                         'operator', 'pair', 'std', 'This', 'void', 'include')]
        targets = []
        for j, x in enumerate(t):
            if x == 'typedef':
                k = j + 1
                while k < n and t[k] not in ('<', ';'):
                    k += 1
                if k < n and t[k] == '<' and (k - 1) in idx:
                    targets.append(k - 1)       # the template a typedef instantiates
        class_names = {t[j + 1] for j in range(n - 1) if t[j] == 'class'}
        ctors = [j for j in idx if j + 1 < n and t[j + 1] == '(' and t[j] in class_names and j > 0 and t[j - 1] in (';', '{', '}', '>')]
        x = r.random()
        if targets and x < 0.4:
            j = r.choice(targets)
            t[j] = t[j] + '_zz'
        elif ctors and x < 0.7:
            multi = [k for k in ctors if sum(1 for q in ctors if t[q] == t[k]) >= 2]
            j = r.choice(multi or ctors)  # a constructor that no longer carries the name of its class (while others do)
            t[j] = t[j] + '_zz'
        elif idx:
            j = r.choice(idx)
            t[j] = t[j] + '_zz'
        else:
            t.insert(i, 'zz')
    elif kind == 'separator':
        # a stray delimiter at a structural position: trailing / leading / doubled separators of lists and blocks
        closers = [j for j, x in enumerate(t) if x in (')', '}', '>')]
        openers = [j for j, x in enumerate(t) if x in ('(', '{', '<')]
        seps = [j for j, x in enumerate(t) if x in (',', ';', '::', ':', '=')]
        x = r.random()
        words = [j for j in range(1, n - 1) if re.match(r'^[A-Za-z_]\w*$', t[j]) and t[j + 1] == '{' and t[j - 1] in (':', '>')
                 or (re.match(r'^[A-Za-z_]\w*$', t[j]) and t[j + 1] == '{' and j >= 2 and t[j - 2] in ('class', ':'))]
        if words and r.random() < 0.25:
            # a second item where the dialect takes one: `class A : B, C {`, `class A, B {`
            j = r.choice(words)
            t[j + 1:j + 1] = [',', r.choice(['Extra', t[j], 'ns::Other<double>'])]
        elif x < 0.4 and closers:
            t.insert(r.choice(closers), r.choice([',', ',', ';', '::']))
        elif x < 0.6 and openers:
            t.insert(r.choice(openers) + 1, r.choice([',', ';', '::']))
        elif seps:
            j = r.choice(seps)
            t.insert(j, t[j] if r.random() < 0.6 else r.choice([',', ';', '::', ':']))
        else:
            t.insert(i, ',')
    elif kind == 'glue' and n > 1:
        i = r.randrange(n - 1)
        t[i:i + 2] = [t[i] + t[i + 1]]
    return kind, t


def directed(toks, r):
    """corruptions aimed at the validation clauses, one of each kind the model allows (deterministic given r)."""
    t0 = [x for x, _ in toks]
    n = len(t0)
    out = []
    ident = lambda x: re.match(r'^[A-Za-z_]\w*$', x) is not None
    class_names = {t0[j + 1] for j in range(n - 1) if t0[j] == 'class'}
    ctors = [j for j in range(1, n - 1) if ident(t0[j]) and t0[j + 1] == '(' and t0[j] in class_names and t0[j - 1] in (';', '{', '}', '>')]
    multi = [k for k in ctors if sum(1 for q in ctors if t0[q] == t0[k]) >= 2]
    if multi:
        t = list(t0)
        j = r.choice(multi)
        t[j] = t[j] + '_zz'
        out.append(('ctor-misnamed', t))
    targets = []
    for j, x in enumerate(t0):
        if x == 'typedef':
            k = j + 1
            while k < n and t0[k] not in ('<', ';'):
                k += 1
            if k < n and t0[k] == '<' and ident(t0[k - 1]):
                targets.append(k - 1)
    if targets:
        t = list(t0)
        j = r.choice(targets)
        t[j] = t[j] + '_zz'
        out.append(('typedef-target-misspelled', t))
    # `f(int a = 1, int b = 2)` -> `f(int a = 1, int b)`: well-formed for the parser, rejected by the MATLAB generator
    # while it generates (a defaulted parameter in front of one without default): a late failure
    lastdef = []
    for j in range(2, n - 1):
        if t0[j] == '=' and t0[j + 2] == ')' and t0[j - 1] not in ('{',):
            k = j - 1
            depth = 0
            while k > 0 and not (t0[k] == '(' and depth == 0):
                depth += {')': 1, '(': -1}.get(t0[k], 0)
                k -= 1
            if '=' in t0[k:j]:
                lastdef.append(j)
    if lastdef:
        t = list(t0)
        j = r.choice(lastdef)
        del t[j:j + 2]
        out.append(('last-default-dropped', t))
    bases = [j for j in range(2, n - 1) if ident(t0[j]) and t0[j + 1] == '{' and t0[j - 1] in (':', '>') or
             (ident(t0[j]) and t0[j + 1] == '{' and t0[j - 1] == '::')]
    if bases:
        t = list(t0)
        j = r.choice(bases)
        t[j + 1:j + 1] = [',', 'Extra']
        out.append(('second-base', t))
    # `enum E { a, b }` -> `enum E { a = 4, b }`: C++ spelling copied from a header, not in the dialect (h1_C07_1)
    enums = []
    for j, x in enumerate(t0):
        if x == 'enum':
            k = j + 1
            while k < n and t0[k] not in ('{', ';'):
                k += 1
            if k < n and t0[k] == '{':
                e = k + 1
                while e < n and t0[e] != '}':
                    if ident(t0[e]):
                        enums.append(e)
                    e += 1
    if enums:
        t = list(t0)
        j = r.choice(enums)
        t[j + 1:j + 1] = ['=', r.choice(['1', '4', 'zz_other', '0x10'])]
        out.append(('enumerator-initialiser', t))
    return out


def flagged_qualifier_region(tokens_text):
    """True when a qualifier token sits inside typedef arguments or an instantiation list
    (the tree stores plain typenames there: known finding)."""
    t = tokens_text
    n = len(t)
    i = 0
    while i < n:
        if t[i] == 'typedef':
            j = i
            while j < n and t[j] != ';':
                if t[j] in QUALS:
                    return True
                j += 1
            i = j
        elif t[i] == '=' and i + 1 < n and t[i + 1] == '{':
            j = i
            depth = 0
            while j < n:
                if t[j] == '{':
                    depth += 1
                elif t[j] == '}':
                    depth -= 1
                    if depth == 0:
                        break
                elif t[j] in QUALS:
                    return True
                j += 1
            i = j
        i += 1
    return False


def token_accounting(text, tree):
    """-> None or dict describing lost / invented lexemes."""
    model, _ = project.project(tree)
    back = render.render(model, 'flat')
    a = lexer.lexemes(text)
    b = lexer.lexemes(back)
    lost = a - b
    invented = b - a
    words = lexer.strip_comments(text)
    import re
    n_enum_cs = len(re.findall(r'\benum\s+(class|struct)\b', words))
    n_stdpair = len(re.findall(r'\bstd\s*::\s*pair\b', words))
    # by-design losses
    for w in ('class', 'struct'):
        k = min(lost.get(w, 0), n_enum_cs)
        if k:
            lost[w] -= k
            n_enum_cs -= k
    k = min(lost.get('std', 0), n_stdpair)
    if k:
        lost['std'] -= k
        lost[':'] -= min(lost.get(':', 0), 2 * k)
    lost = +lost
    invented = +invented
    if lost or invented:
        return {'lost': dict(lost), 'invented': dict(invented), 'unparsed': back[:800]}
    return None


def snapshot(root):
    out = {}
    for d, ds, fs in os.walk(root):
        for x in ds:
            out[os.path.relpath(os.path.join(d, x), root) + '/'] = 'dir'
        for f in fs:
            p = os.path.join(d, f)
            out[os.path.relpath(p, root)] = hashlib.sha256(open(p, 'rb').read()).hexdigest()
    return out


GOOD = 'namespace keep { class Keep { Keep(); int f(double x = 1.5) const; }; enum E { a, b }; double g(); }\n'


class Sandbox:
    """A build directory pre-filled with the outputs of a previous good run."""

    def __init__(self):
        self.root = tempfile.mkdtemp(prefix='verif_c07_')
        self.src = os.path.join(self.root, 'src')
        self.out = os.path.join(self.root, 'out')
        self.cwd = os.path.join(self.root, 'cwd')
        os.makedirs(self.src)
        self.tpl = os.path.join(self.src, 'tpl.tpl')
        open(self.tpl, 'w').write(tool.TPL)
        self.input = os.path.join(self.src, 'mod.i')
        self.fill()

    def fill(self):
        """(re)create the pre-filled state; the first call generates it with the real tool."""
        old = os.getcwd()
        os.chdir(self.root)
        try:
            pristine = os.path.join(self.root, 'pristine')
            for d in (self.out, self.cwd):
                shutil.rmtree(d, ignore_errors=True)
            if not os.path.isdir(pristine):
                from gtwrap.pybind_wrapper import PybindWrapper
                from gtwrap.matlab_wrapper import MatlabWrapper
                os.makedirs(self.out)
                os.makedirs(self.cwd)
                open(self.input, 'w').write(GOOD)
                os.chdir(self.cwd)
                w = PybindWrapper(module_name='mod', top_module_namespaces=[''], ignore_classes=[],
                                  module_template=tool.TPL)
                w.wrap([self.input], os.path.join(self.out, 'mod.cpp'))
                w.wrap_submodule(self.input)
                MatlabWrapper(module_name='mod', ignore_classes=[]).wrap(
                    [self.input], path=os.path.join(self.out, 'toolbox'))
                os.chdir(self.root)
                shutil.copytree(self.out, os.path.join(pristine, 'out'))
                shutil.copytree(self.cwd, os.path.join(pristine, 'cwd'))
                self.base = (snapshot(self.out), snapshot(self.cwd))
            else:
                shutil.copytree(os.path.join(pristine, 'out'), self.out)
                shutil.copytree(os.path.join(pristine, 'cwd'), self.cwd)
        finally:
            os.chdir(old if os.path.isdir(old) else self.root)

    def changed(self):
        now = (snapshot(self.out), snapshot(self.cwd))
        diffs = []
        for b, a, where in ((self.base[0], now[0], 'out'), (self.base[1], now[1], 'cwd')):
            for k in set(a) | set(b):
                if a.get(k) != b.get(k):
                    diffs.append('%s/%s: %s' % (where, k, 'created' if k not in b else ('removed' if k not in a else 'modified')))
        return sorted(diffs)

    def close(self):
        shutil.rmtree(self.root, ignore_errors=True)


def run_entry_points(text, sb, acc, budget):
    """Drive the API entry points on `text` inside the sandbox; returns list of violations."""
    from gtwrap.pybind_wrapper import PybindWrapper
    from gtwrap.matlab_wrapper import MatlabWrapper
    import gtwrap.interface_parser as parser
    vs = []
    open(sb.input, 'w').write(text)
    # 1. parser + token accounting + step budget
    try:
        tree, steps = monitors.STEPS.measure(lambda: parser.Module.parseString(text), cap=budget)
        accepted = True
    except monitors.StepBudgetExceeded:
        return [{'what': 'parse exceeded the step budget (termination clause)', 'budget': budget}], None
    except Exception as e:
        accepted = False
        acc.count('reject:' + type(e).__name__)
    if accepted:
        acc.count('accepted_token_accounting')
        d = token_accounting(text, tree)
        if d:
            d['what'] = 'accepted input with lexemes lost or invented'
            vs.append(d)
    # validation clause: a typedef that names a template nobody declares cannot be understood as a declaration
    undeclared = None
    if accepted:
        try:
            from vlib import ref_inst
            model, _ = project.project(tree)
            for _, it in S.walk_items(model.items):
                if it.k == 'Typedef' and len(ref_inst.find_template(model, it.type.ns, it.type.name)) == 0:
                    undeclared = 'typedef names the undeclared template ' + '::'.join(it.type.ns + (it.type.name,))
                    break
                if it.k == 'Class':
                    bad = [m.name for m in it.members if m.k == 'Ctor' and m.name != it.name]
                    if bad:
                        # a member without return type that is not named like its class is no constructor
                        undeclared = 'class %s has a constructor-like member named %s' % (it.name, bad[0])
                        break
        except Exception:
            undeclared = None
        if undeclared:
            acc.count('inputs_that_must_fail_validation')
    # 2..4 generators; file-system clause
    old = sb.root
    os.chdir(sb.cwd)
    try:
        runs = [
            ('pybind.wrap', lambda: PybindWrapper(module_name='mod', top_module_namespaces=[''], ignore_classes=[],
                                                  module_template=tool.TPL).wrap([sb.input], os.path.join(sb.out, 'mod.cpp'))),
            ('pybind.wrap_submodule', lambda: PybindWrapper(module_name='mod', top_module_namespaces=[''], ignore_classes=[],
                                                            module_template=tool.TPL).wrap_submodule(sb.input)),
            ('matlab.wrap', lambda: MatlabWrapper(module_name='mod', ignore_classes=[]).wrap(
                [sb.input], path=os.path.join(sb.out, 'toolbox'))),
        ]
        if accepted and not undeclared:
            # a list of sources one of which does not exist is no complete sequence of declarations either
            def with_missing():
                MatlabWrapper(module_name='mod', ignore_classes=[]).wrap(
                    [sb.input, os.path.join(sb.src, 'no_such_file.i')], path=os.path.join(sb.out, 'toolbox'))
                raise RuntimeError('accepted a source list naming a missing file')
            runs.append(('matlab.wrap(missing source)', with_missing))
        for name, fn in runs:
            with monitors.FS as fs:
                res = tool.outcome(fn)
            writes = [w for w in fs.writes() if w.startswith(sb.root) and not w.startswith(sb.src)]
            if res[0] == 'exc':
                acc.count('rejected_runs_fs_checked')
                acc.count('loud:%s:%s' % (name, res[1].split(':')[0]))
                ch = sb.changed()
                if ch or writes:
                    vs.append({'what': 'failing run of %s created or modified output' % name, 'error': res[1],
                               'changed': ch[:6], 'write_events': writes[:6]})
                    sb.fill()
                    os.chdir(sb.cwd)
                    open(sb.input, 'w').write(text)
                if accepted is False and 'Parse' not in res[1] and name != 'matlab.wrap':
                    acc.count('non-parse-exception-on-rejected-input')
            else:
                acc.count('successful_runs')
                if not accepted:
                    vs.append({'what': '%s succeeded on an input the parser rejects' % name})
                elif undeclared:
                    vs.append({'what': '%s succeeded although %s (accepted or dropped instead of reported)' % (name, undeclared)})
                sb.fill()
                os.chdir(sb.cwd)
                open(sb.input, 'w').write(text)
    finally:
        os.chdir(old)
    return vs, accepted


def run_script(kind, text, sb, acc, use_strace):
    """one command-line run; returns violations."""
    open(sb.input, 'w').write(text)
    env = dict(os.environ)
    env['PYTHONPATH'] = REPO
    if kind == 'pybind':
        cmd = [sys.executable, os.path.join(REPO, 'scripts', 'pybind_wrap.py'), '--src', sb.input, '--module_name',
               'mod', '--out', os.path.join(sb.out, 'mod.cpp'), '--template', sb.tpl, '--ignore']
    elif kind == 'pybind_sub':
        cmd = [sys.executable, os.path.join(REPO, 'scripts', 'pybind_wrap.py'), '--src', sb.input, '--module_name',
               'mod', '--out', os.path.join(sb.out, 'mod.cpp'), '--template', sb.tpl, '--ignore', '--is_submodule']
    else:
        cmd = [sys.executable, os.path.join(REPO, 'scripts', 'matlab_wrap.py'), '--src', sb.input, '--module_name',
               'mod', '--out', os.path.join(sb.out, 'toolbox'), '--ignore']
    log = None
    if use_strace:
        log = os.path.join(sb.root, 'strace.log')
        cmd = ['strace', '-f', '-qq', '-e', 'trace=openat,mkdir,rename,unlink,unlinkat', '-o', log] + cmd
    try:
        p = subprocess.run(cmd, cwd=sb.cwd, env=env, stdout=subprocess.PIPE, stderr=subprocess.PIPE, timeout=300)
    except subprocess.TimeoutExpired:
        acc.inconclusive.append('script run exceeded 300 s watchdog')
        return []
    acc.count('script_runs')
    acc.count('script:%s:exit%d' % (kind, 0 if p.returncode == 0 else 1))
    vs = []
    if log and os.path.exists(log):
        wr = 0
        for line in open(log, errors='replace'):
            if sb.root in line and ('O_WRONLY' in line or 'O_RDWR' in line or 'O_CREAT' in line or 'mkdir(' in line
                                    or 'rename' in line or 'unlink' in line) and '= -1' not in line:
                wr += 1
                if p.returncode != 0:
                    vs.append({'what': 'failing script run issued a write syscall under the build directory',
                               'syscall': line.strip()[:200]})
        acc.count('strace_write_syscalls_seen', wr)
        os.remove(log)
    if p.returncode != 0:
        ch = sb.changed()
        if ch:
            vs.append({'what': 'failing %s script run created or modified output' % kind, 'changed': ch[:6],
                       'stderr': p.stderr.decode('utf8', 'replace')[-300:]})
            sb.fill()
    else:
        sb.fill()
    return vs, p.returncode


def worker(ctx):
    monitors.STEPS.install()
    acc = ctx.acc
    sb = Sandbox()
    try:
        seen_script = 0
        for i in ctx.my_cases():
            seed = ctx.case_seed(i)
            mod = make_model(seed)
            toks = render.tokens(mod)
            r = random.Random(seed ^ 0x5eed)
            variants = [('valid', [x for x, _ in toks])]
            for j in range(ctx.plan['corruptions']):
                variants.append(corrupt(toks, r))
            variants += directed(toks, random.Random(seed ^ 0xd1e))
            for j, (kind, tl) in enumerate(variants):
                if kind != 'valid' and flagged_qualifier_region(tl):
                    acc.count('skipped_flagged_qualifier_region')
                    continue
                text = ' '.join(tl) + '\n'
                budget = 3000 * max(len(tl), 1) + 50000
                vs, accepted = run_entry_points(text, sb, acc, budget)
                acc.case(hashlib.sha256(text.encode()).hexdigest()[:16], kind != 'valid')
                acc.count('corruption:' + kind)
                if accepted:
                    acc.count('accepted:' + kind)
                for v in vs[:2]:
                    v['text'] = text[:2500]
                    v['corruption'] = kind
                    acc.violation({'case_seed': seed, 'variant': j, 'tier': ctx.tier}, v)
                if i < 2 and j == 1:
                    acc.sample({'corruption': kind, 'accepted': accepted, 'text': text[:600]})
            # script sample: one valid + one corrupted per model until the quota is used
            quota = ctx.plan['scripts'] // ctx.nworkers + 1
            if seen_script < quota:
                for jj, (kind, tl) in enumerate(variants[:3]):
                    text = ' '.join(tl) + '\n'
                    sk = ['pybind', 'matlab', 'pybind_sub'][(seen_script // 3 + jj) % 3]
                    res = run_script(sk, text, sb, acc, use_strace=(seen_script % 4 == 0))
                    seen_script += 1
                    if res:
                        vs, rc = res
                        try:
                            tool.parse(text)
                            ok = True
                        except Exception:
                            ok = False
                        if rc == 0 and not ok:
                            vs.append({'what': '%s script exits 0 on an input the parser rejects' % sk})
                        for v in vs[:2]:
                            v['text'] = text[:2500]
                            acc.violation({'case_seed': seed, 'script': sk, 'variant_kind': kind}, v)
    finally:
        sb.close()


def replay(case, ctx):
    monitors.STEPS.install()
    if 'probe' in case:
        s = probe_text(case['witness'], ctx)
        return [{'observed': s}] if s else []
    mod = make_model(case['case_seed'])
    toks = render.tokens(mod)
    r = random.Random(case['case_seed'] ^ 0x5eed)
    variants = [('valid', [x for x, _ in toks])]
    for j in range(plan(case.get('tier', ctx.tier), 0)['corruptions']):
        variants.append(corrupt(toks, r))
    variants += directed(toks, random.Random(case['case_seed'] ^ 0xd1e))
    kind, tl = variants[min(case.get('variant', 0), len(variants) - 1)]
    text = ' '.join(tl) + '\n'
    sb = Sandbox()
    try:
        vs, _ = run_entry_points(text, sb, ctx.acc, 3000 * len(tl) + 50000)
    finally:
        sb.close()
    return vs


def probes(ctx):
    monitors.STEPS.install()
    run_probes(ctx, PID, {'accept-text': probe_text})


def probe_text(witness, ctx):
    text = witness['text']
    try:
        tree = tool.parse(text)
    except Exception:
        return None
    d = token_accounting(text, tree)
    if not d:
        return None
    return 'lost %s invented %s' % (sorted(d['lost'].items()), sorted(d['invented'].items()))
