"""C06 - MATLAB overload guards, default expansion and C++ marshalling line up.

Structural oracle on executions of the real MATLAB generator over typed (coherent) models: for every
constructor / method / static method / free function with n parameters of which the last k have
defaults, the .m file must offer exactly the branches n..n-k (in that order), each branch's guard must
test the argument count and the i-th argument's MATLAB class (plus the size tests of Vector/Point
types), the routine dispatched for the branch must expect the same count, unwrap the i-th MATLAB
argument as the i-th declared parameter with the declared passing mode, call the declared C++ entity
with those arguments in order followed by the omitted defaults' original text, and wrap the result for
the declared return type into the matching outputs.  An icontract post-condition watches the real
_expand_default_arguments.  (The behavioural half - executing every arity - is part of C11.)
"""
import hashlib, random, re
from vlib import spec as S, cohgen, render, mlab, mlwork, ref_matlab, ref_inst
from vlib.probes import run_probes

PID = 'C06'
RULE = ('seeded coherent models over the MATLAB execute-universe (bool,char,int,size_t,double,string,Vector,Matrix,'
        'Point2,Point3, classes by value / const ref / ref / shared / raw pointer, enums of the same scope, template '
        'parameters) with 0-6 parameters, every trailing default mask, all return shapes (void, scalar, string, Eigen, '
        'object by value / shared, enum, pair); one case = one toolbox, every callable x arity of it is compared; '
        'non-trivial = toolbox with >=1 defaulted parameter and >=1 object parameter; distinct = sha256 of the text')
ASSUMPTIONS = ['marshalling table of vlib/ref_matlab.py (DESIGN.md 4/C06) states what the documented type universe requires',
               'flagged constructs (D9, D12, D13, D28, D30-D33, D41 unsigned char guards) are not generated while open']
MIN_EVENTS = {'quick': {'branches_compared': 6000, 'contract:_expand_default_arguments': 3000},
              'thorough': {'branches_compared': 120000, 'contract:_expand_default_arguments': 60000}}
CONTRACT = {'evals': 0, 'fails': []}


def plan(tier, seed):
    return {'cases': 360 if tier == 'quick' else 7000, 'watchdog_s': 1500 if tier == 'quick' else 10800}


def install_contract():
    import icontract
    from gtwrap.matlab_wrapper.wrapper import MatlabWrapper
    f = MatlabWrapper.__dict__['_expand_default_arguments']
    orig = f.__func__ if isinstance(f, staticmethod) else f
    if getattr(orig, '_verif', False):
        return

    def snap(method):
        return [(a.name, a.default, id(a)) for a in method.args.list()]

    def post(method, save_backup, result, OLD):
        CONTRACT['evals'] += 1
        try:
            before = OLD.args
            n = len(before)
            k = 0
            for _, d, _ in reversed(before):
                if d is None:
                    break
                k += 1
            if save_backup:
                if len(result) != k + 1:
                    CONTRACT['fails'].append('%s: %d overloads for %d trailing defaults' % (method.name, len(result), k))
                for j, r in enumerate(result):
                    names = [a.name for a in r.args.list()]
                    if names != [nm for nm, _, _ in before][:n - j]:
                        CONTRACT['fails'].append('%s: overload %d has parameters %r' % (method.name, j, names))
                    if not hasattr(r.args, 'backup') or [a.name for a in r.args.backup.list()] != [nm for nm, _, _ in before]:
                        CONTRACT['fails'].append('%s: overload %d lost the backup of the full parameter list' % (method.name, j))
                    elif [a.default for a in r.args.backup.list()] != [d for _, d, _ in before]:
                        CONTRACT['fails'].append('%s: backup defaults changed' % method.name)
                after = [(a.name, a.default, id(a)) for a in method.args.list()]
                if after != before:
                    CONTRACT['fails'].append('%s: the input declaration was modified' % method.name)
        except Exception as e:
            CONTRACT['fails'].append('monitor error %s' % e)
        return True

    def wrapped(method, save_backup=True):
        return orig(method, save_backup)
    w = icontract.snapshot(snap, name='args')(icontract.ensure(post, error=RuntimeError)(wrapped))
    w._verif = True
    MatlabWrapper._expand_default_arguments = staticmethod(w)


def make_case(seed, tier):
    r = random.Random(seed)
    k = cohgen.Knobs(classes=r.choice([2, 3, 5]), members=r.choice([4, 7]), ns_depth=r.choice([0, 1, 2]),
                     namespaces=r.choice([1, 2]), funcs=r.choice([2, 4]), params=r.choice([3, 4, 6]))
    g = cohgen.CohGen(seed, k, target='matlab', unsigned_char_params=False)
    return g.module()


def expected_branches(M, args, env, this):
    """[(arity, [guard class per arg], [size tests], [unwrap dict], [call arg spellings])] for n..n-k"""
    out = []
    types = [ref_inst.subst(a.type, env, this) for a in args]
    for n in ref_matlab.arities(args):
        guards = [(i + 1, M.guard(types[i])) for i in range(n)]
        sizes = [t for i in range(n) for t in M.size_tests(types[i], i + 1)]
        unwraps, call = [], []
        for i in range(n):
            u, spelled = M.unwrap(types[i], args[i].name, None)
            unwraps.append(u)
            call.append(spelled)
        call += [a.default for a in args[n:]]
        out.append({'arity': n, 'guards': guards, 'sizes': sizes, 'unwraps': unwraps, 'call': call})
    return out


def compare_branch(site, routine, exp, first_in, callee_re, ret, M, where, lhs_kind):
    """site: parsed .m branch; routine: parsed routine; exp: expected branch."""
    if site['arity'] != exp['arity']:
        return '%s: branch arity %d, expected %d' % (where, site['arity'], exp['arity'])
    if [tuple(g) for g in site['guards']] != [g for g in exp['guards']]:
        return '%s/%d: guard classes %r, expected %r' % (where, exp['arity'], site['guards'], exp['guards'])
    if sorted(tuple(x) for x in site['sizes']) != sorted(exp['sizes']):
        return '%s/%d: size tests %r, expected %r' % (where, exp['arity'], site['sizes'], exp['sizes'])
    if routine is None:
        return '%s/%d: no routine for id %s' % (where, exp['arity'], site.get('id'))
    if routine['role'] == 'call':
        if not routine['check'] or routine['check']['count'] != exp['arity']:
            return '%s/%d: checkArguments expects %r' % (where, exp['arity'], routine['check'])
    if len(routine['unwraps']) != exp['arity']:
        return '%s/%d: routine unwraps %d arguments' % (where, exp['arity'], len(routine['unwraps']))
    for i, (u, e) in enumerate(zip(routine['unwraps'], exp['unwraps'])):
        if e is None:
            continue
        got = (u['fn'], ref_matlab.nows(u['type']), u['index'], u['ptr'], u['deref'], ref_matlab.nows(u['decl']))
        want = (e['fn'], ref_matlab.nows(e['type']), first_in + i, e['ptr'], e['deref'], ref_matlab.nows(e['decl']))
        if got != want:
            return '%s/%d: argument %d unwrapped as %r, expected %r' % (where, exp['arity'], i, got, want)
    # call expression
    if routine['role'] == 'constructor':
        callee, cargs = routine['call']['callee'], routine['call']['args']
        stm_all = ''
    else:
        stm_all = ' '.join(routine.get('statements', []))
        m = re.search(callee_re + r'\((.*?)\)(?:\)|,|;)', stm_all)
        if not m:
            return '%s/%d: call of the declared entity not found in %r' % (where, exp['arity'], stm_all[:200])
        # take the argument text by bracket matching
        start = stm_all.index(m.group(0)) + m.group(0).index('(')
        from vlib.pyinv import match_bracket, split_top
        end = match_bracket(stm_all, start)
        cargs = [a.strip() for a in split_top(stm_all[start + 1:end], ',', angle=True) if a.strip()]
    want_args = [ref_matlab.nows(a) for a in exp['call']]
    if [ref_matlab.nows(a) for a in cargs] != want_args:
        return '%s/%d: call arguments %r, expected %r' % (where, exp['arity'], cargs, exp['call'])
    # return wrapping + varargout shape
    if ret is not None:
        lhs = (site.get('lhs') or '').replace(' ', '')
        if ret.k == 'Pair':
            want_lhs = '[varargout{1}varargout{2}]'
        elif ret.name == 'void' and not ret.ns and not ret.args:
            want_lhs = ''
        else:
            want_lhs = 'varargout{1}'
        if lhs != want_lhs:
            return '%s/%d: outputs assigned %r, expected %r' % (where, exp['arity'], lhs, want_lhs)
        stmts = routine.get('statements', [])
        if ret.k == 'Pair':
            if not any(s.startswith('auto pairResult =') for s in stmts):
                return '%s/%d: pair result not captured' % (where, exp['arity'])
            for half, idx, fld in ((ret.first, 0, 'first'), (ret.second, 1, 'second')):
                w = M.wrap(half, 'pairResult.' + fld, 'out[%d]' % idx)
                if w and not any(ref_matlab.nows(w) == ref_matlab.nows(s) for s in stmts):
                    return '%s/%d: pair half %d not wrapped as %r (statements %r)' % (where, exp['arity'], idx, w, stmts[-2:])
        elif want_lhs:
            last = stmts[-1] if stmts else ''
            mm = re.match(r'^out\[0\] = (.*);$', last)
            k, info = M.kind(ret)
            okfn = {'scalar': 'wrap<', 'string': 'wrap<', 'eigen': 'wrap<', 'enum': 'wrap_enum(', 'class': 'wrap_shared_ptr('}.get(k)
            if not mm or (okfn and not mm.group(1).replace(' ', '').startswith(okfn)):
                return '%s/%d: result wrapped by %r, declared return kind %s' % (where, exp['arity'], last[:120], k)
            if k in ('scalar', 'string', 'eigen') and ref_matlab.nows('wrap< %s >(' % info) not in ref_matlab.nows(last):
                return '%s/%d: result wrapped as %r, declared %s' % (where, exp['arity'], last[:100], info)
            if k == 'enum' and ('"%s"' % M.x.enums[info]) not in last:
                return '%s/%d: enum result wrapped as %r, expected MATLAB class %s' % (where, exp['arity'], last[:120], M.x.enums[info])
            if k == 'class':
                if ('"%s"' % M.matlab_class(info)) not in last:
                    return '%s/%d: object result wrapped as %r, expected MATLAB class %s' % (where, exp['arity'], last[:140], M.matlab_class(info))
                if (ret.marker != '*') != ('std::make_shared<' in last):
                    return '%s/%d: by-value/shared return mismatch in %r' % (where, exp['arity'], last[:140])
        else:
            if any(s.startswith('out[') for s in stmts):
                return '%s/%d: void callable assigns an output' % (where, exp['arity'])
    return None


def check(mod, acc, text):
    exp = ref_matlab.Expect(mod, 'modx')
    M = ref_matlab.Marshal(exp)
    tb = mlwork.Toolbox(text, 'modx')
    routines = {}
    for r in tb.cpp['routines']:
        routines[r['id']] = r
    problems = []

    def branches_of(parsed_list):
        return parsed_list

    for path, d in exp.files.items():
        p = tb.m.get(path)
        if p is None:
            continue
        if d['kind'] == 'class' and p['kind'] == 'class':
            cpp_re = re.escape(d['cpp'].replace(', ', ','))
            # constructors
            got = list(p['ctor']['overloads']) if p['ctor'] else []
            want = []
            for m, menv in d['ctors']:
                want += [(m, e) for e in expected_branches(M, m.args, menv, d['this'])]
            if len(got) != len(want):
                problems.append('%s constructor: %d branches, expected %d (arities n..n-k per overload)' % (path, len(got), len(want)))
            for g, (m, e) in zip(got, want):
                acc.count('branches_compared')
                why = compare_branch(g, routines.get(g.get('id')), e, 0, None, None, M, path + ' constructor', 'ctor')
                if why:
                    problems.append(why)
                r = routines.get(g.get('id'))
                if r and r['role'] == 'constructor' and ref_matlab.nows(r['call']['callee']) != ref_matlab.nows(d['cpp']):
                    problems.append('%s constructor: allocates %s, declared class %s' % (path, r['call']['callee'], d['cpp']))
            for role, table, parsed in (('method', d['methods'], p['methods']), ('static', d['statics'], p['statics'])):
                for name, overloads in table.items():
                    got = parsed.get(name, [])
                    want = []
                    for m, menv, mi in overloads:
                        targs = ('<' + ','.join(ref_inst.cpp_typename(i) for i in mi) + '>') if m.template else ''
                        for e in expected_branches(M, m.args, menv, d['this']):
                            want.append((m, menv, targs, e))
                    if len(got) != len(want):
                        problems.append('%s %s %s: %d branches, expected %d' % (path, role, name, len(got), len(want)))
                    for g, (m, menv, targs, e) in zip(got, want):
                        acc.count('branches_compared')
                        if role == 'method':
                            callee = r'obj->' + re.escape(m.name) + re.escape(targs).replace(',', r',\s*')
                            first = 1
                        else:
                            callee = cpp_re.replace(',', r',\s*') + '::' + re.escape(m.name) + re.escape(targs).replace(',', r',\s*')
                            first = 0
                        ret = ref_inst.subst_ret(m.ret, menv, d['this'])
                        why = compare_branch(g, routines.get(g.get('id')), e, first, callee, ret, M,
                                             '%s %s %s' % (path, role, name), role)
                        if why:
                            problems.append(why)
            # property accessors: getter wraps obj->name for the declared type, setter assigns the unwrapped value
            for m in d['props']:
                acc_ = p['accessors'].get(m.name, {})
                t = ref_inst.subst(m.type, d['env'], d['this'])
                k, info = M.kind(t)
                g = routines.get((acc_.get('get') or {}).get('id'))
                s_ = routines.get((acc_.get('set') or {}).get('id'))
                if g is None or s_ is None:
                    problems.append('%s property %s: accessor routines missing' % (path, m.name))
                    continue
                acc.count('branches_compared', 2)
                gs = ' '.join(g.get('statements', []))
                w = M.wrap(t, 'obj->' + m.name)
                if w and ref_matlab.nows(w) not in ref_matlab.nows(gs):
                    problems.append('%s property %s: getter %r, expected %r' % (path, m.name, gs[-160:], w))
                ss = [x for x in s_.get('statements', []) if x.startswith('obj->')]
                want_set = 'obj->%s = %s%s;' % (m.name, '*' if (k == 'class' and t.marker == '') else '', m.name)
                if not ss or ref_matlab.nows(ss[-1]) != ref_matlab.nows(want_set):
                    problems.append('%s property %s: setter %r, expected %r' % (path, m.name, ss[-1:] , want_set))
        elif d['kind'] == 'function' and p['kind'] == 'function':
            got = p['overloads']
            want = []
            for f, combo in d['overloads']:
                env = {pp.name: i for pp, i in zip(f.template or (), combo)}
                for e in expected_branches(M, f.args, env, None):
                    want.append((f, env, e))
            if len(got) != len(want):
                problems.append('%s: %d branches, expected %d' % (path, len(got), len(want)))
            for g, (f, env, e) in zip(got, want):
                acc.count('branches_compared')
                callee = '(?<![\\w>])' + re.escape('::'.join(d['path'] + (f.name,)))
                why = compare_branch(g, routines.get(g.get('id')), e, 0, callee, ref_inst.subst_ret(f.ret, env, None), M, path, 'function')
                if why:
                    problems.append(why)
    return problems


def stats(mod, acc):
    for _, it in S.walk_items(mod.items):
        members = it.members if it.k == 'Class' else ([it] if it.k == 'Func' else [])
        for m in members:
            a = getattr(m, 'args', None)
            if a is None:
                continue
            k = len(ref_matlab.arities(a)) - 1
            acc.count('callable:%s:n%d:k%d' % (m.k, min(len(a), 6), k))
            for x in a:
                acc.count('param_mode:%s%s' % ('c' if x.type.const else '-', x.type.marker or '-'))


def run_case(seed, tier, acc):
    mod = make_case(seed, tier)
    text = render.render(mod)
    CONTRACT['fails'] = []
    before = CONTRACT['evals']
    try:
        probs = check(mod, acc, text)
    except Exception as e:
        import traceback
        probs = ['generation or extraction failed: %s: %s | %s' % (type(e).__name__, str(e)[:200], traceback.format_exc()[-400:])]
    acc.count('contract:_expand_default_arguments', CONTRACT['evals'] - before)
    probs += ['contract on _expand_default_arguments: ' + f for f in CONTRACT['fails'][:2]]
    return [{'what': p, 'text': text[:3000]} for p in probs[:4]], text, mod


def worker(ctx):
    install_contract()
    acc = ctx.acc
    for i in ctx.my_cases():
        seed = ctx.case_seed(i)
        vs, text, mod = run_case(seed, ctx.tier, acc)
        acc.case(hashlib.sha256(text.encode()).hexdigest()[:16], ' = ' in text and ('*' in text or '&' in text or '@' in text))
        stats(mod, acc)
        if i < 1:
            acc.sample({'case_seed': seed, 'text': text[:1200]})
        for v in vs[:3]:
            acc.violation({'case_seed': seed, 'tier': ctx.tier}, v)


def replay(case, ctx):
    install_contract()
    if 'probe' in case:
        s = probe(case['witness'], ctx)
        return [{'observed': s}] if s else []
    return run_case(case['case_seed'], case['tier'], ctx.acc)[0]


def probes(ctx):
    install_contract()
    run_probes(ctx, PID, {'matlab-marshal': probe})


def probe(witness, ctx):
    mod = S.from_json(witness['model'])
    try:
        probs = check(mod, ctx.acc, render.render(mod))
    except Exception as e:
        return 'exception %s: %s' % (type(e).__name__, str(e)[:120])
    if not probs:
        return None
    return re.sub(r'\d+', 'N', probs[0])[:200]
