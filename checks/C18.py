"""C18 - the MATLAB runtime header (matlab.h) converts values without loss.

The real matlab.h (copied unmodified from the repository at run time) is compiled with ASan+UBSan
(+LeakSanitizer) against the harness' mock MEX runtime and driven by cxx/mh_driver.cpp: scalar,
string, vector, matrix and enum round trips (bit-exact), shape / column-major layout checks of the
intermediate mxArray, the error matrix (non-scalars, non-double arrays, non-char arrays, argument
counts), and random histories of handle wrap / unwrap / raw unwrap / release / copy with a
live-instance invariant checked at every quiescent point.  Thorough tier: the same binary (built
without sanitizers) also runs under valgrind memcheck as an independent detector of uninitialised reads.
"""
import os, re, shutil, subprocess, tempfile
from vlib.runner import REPO, VERIF, load_known

PID = 'C18'
RULE = ('C++ driver with seeded workloads: all 256 char / unsigned char values, bool, int and size_t extremes and '
        'powers of two +-1, double specials (signed zero, denormals, infinities, NaN payloads, extremes) plus N random '
        'bit patterns per type, strings (empty, every single byte 1-255, random lengths to 4096), Vector lengths 0-64, '
        'Matrix shapes 0-9 x 0-9 with position-coded elements, error matrix, H random handle histories of 10-300 steps; '
        'one case = one conversion or one history step; non-trivial = all; distinct = distinct (kind) counters x seeds '
        '(counted as the number of distinct history step kinds and conversion kinds exercised)')
ASSUMPTIONS = ['mock MEX runtime (cxx/mockmex) models MATLAB arrays, objects with properties, mxGetProperty copies and temporaries',
               'gtsam Vector/Matrix/Point stand-ins (no Eigen): bounds-checked, opaque to matlab.h',
               'strings are NUL-free (mxCreateString is a C-string API); the embedded-NUL probe is reported as a NOTE']
CXXFLAGS = ['-std=c++17', '-O0', '-g', '-w']
SAN = ['-fsanitize=address,undefined', '-fno-sanitize-recover=all', '-fno-omit-frame-pointer']


def plan(tier, seed):
    return {'cases': 1, 'workers': 4 if tier == 'quick' else 16, 'watchdog_s': 1800 if tier == 'quick' else 10800}


def build(tmp, san=True):
    os.makedirs(os.path.join(tmp, 'gtwrap'), exist_ok=True)
    shutil.copy(os.path.join(REPO, 'matlab.h'), os.path.join(tmp, 'gtwrap', 'matlab.h'))
    exe = os.path.join(tmp, 'mh_san' if san else 'mh_plain')
    cmd = ['clang++'] + CXXFLAGS + (SAN if san else ['-gdwarf-4']) + ['-I', os.path.join(VERIF, 'cxx', 'mockmex'), '-I', tmp,
                                                          os.path.join(VERIF, 'cxx', 'mh_driver.cpp'),
                                                          os.path.join(VERIF, 'cxx', 'mockmex', 'mockmex.cpp'), '-o', exe]
    p = subprocess.run(cmd, stdout=subprocess.PIPE, stderr=subprocess.PIPE, timeout=900)
    if p.returncode != 0:
        return None, p.stderr.decode('utf8', 'replace')
    return exe, ''


def worker(ctx):
    acc = ctx.acc
    tmp = tempfile.mkdtemp(prefix='verif_c18_')
    try:
        exe, err = build(tmp, san=True)
        if exe is None:
            acc.violation({'kind': 'build'}, {'what': 'matlab.h does not compile against the mock MEX API',
                                              'errors': [l for l in err.split('\n') if ' error' in l][:4]})
            return
        quick = ctx.tier == 'quick'
        nrand = 20000 if quick else 200000
        nhist = 600 if quick else 4000
        seed = ctx.seed * 1000 + ctx.index + 1
        env = dict(os.environ)
        env['ASAN_OPTIONS'] = 'detect_leaks=1:halt_on_error=1:abort_on_error=0'
        env['UBSAN_OPTIONS'] = 'halt_on_error=1:print_stacktrace=1'
        p = subprocess.run([exe, str(seed), str(nrand), str(nhist)], stdout=subprocess.PIPE, stderr=subprocess.PIPE,
                           timeout=ctx.plan['watchdog_s'] - 120, env=env)
        judge(p, acc, {'kind': 'driver', 'seed': seed, 'nrand': nrand, 'nhist': nhist, 'san': True}, ctx)
        if not quick and ctx.index < 2:
            exe2, err = build(tmp, san=False)
            if exe2:
                q = subprocess.run(['valgrind', '--error-exitcode=97', '--track-origins=yes', '-q', exe2, str(seed), '500', '60'],
                                   stdout=subprocess.PIPE, stderr=subprocess.PIPE, timeout=ctx.plan['watchdog_s'] - 120)
                acc.count('valgrind_runs')
                if b'DONE' not in q.stdout and q.returncode != 97:
                    # the tool could not run the binary (e.g. unsupported debug-info format): inconclusive, not a violation
                    acc.inconclusive.append('valgrind could not run the driver: ' + q.stderr.decode('utf8', 'replace')[-300:])
                    return
                if q.returncode == 97 or b'uninitialised' in q.stderr:
                    acc.violation({'kind': 'valgrind', 'seed': seed}, {'what': 'valgrind memcheck report while running matlab.h conversions',
                                                                       'report': q.stderr.decode('utf8', 'replace')[-1500:]})
                judge(q, acc, {'kind': 'driver', 'seed': seed, 'nrand': 500, 'nhist': 60, 'san': False}, ctx, count=False)
    finally:
        shutil.rmtree(tmp, ignore_errors=True)


def judge(p, acc, case, ctx, count=True):
    out = p.stdout.decode('utf8', 'replace')
    err = p.stderr.decode('utf8', 'replace')
    if 'ERROR: AddressSanitizer' in err or 'runtime error:' in err or 'ERROR: LeakSanitizer' in err:
        acc.count('sanitizer_reports')
        acc.violation(case, {'what': 'sanitizer report in matlab.h conversions', 'report': err[-2000:]})
        return
    if 'DONE' not in out:
        acc.violation(case, {'what': 'driver did not finish', 'rc': p.returncode, 'stderr': err[-800:], 'stdout': out[-400:]})
        return
    known = {k['signature']: k for k in load_known(PID) if k.get('status') == 'open'}
    fails = {}
    for m in re.finditer(r'^FAIL (.*?) :: (.*)$', out, re.M):
        fails.setdefault(m.group(1), []).append(m.group(2))
    for what, details in fails.items():
        if what in known:
            acc.known_finding(known[what]['key'], known[what]['what'])
        else:
            acc.violation(case, {'what': what, 'examples': details[:5], 'occurrences': len(details)})
    for m in re.finditer(r'^NOTE (.*)$', out, re.M):
        acc.notes.append(m.group(1))
    if count:
        total = 0
        for m in re.finditer(r'^COUNT (\S+) (\d+)$', out, re.M):
            acc.count(m.group(1), int(m.group(2)))
            acc.nontrivial.add('%s@%s' % (m.group(1), case['seed']))
            total += int(m.group(2))
        acc.evaluations += total
        if ctx.index == 0:
            acc.sample({'driver_args': case, 'first_counters': dict(re.findall(r'^COUNT (\S+) (\d+)$', out, re.M)[:8])})


MIN_EVENTS = {'quick': {'hist:quiescent_checks': 50000, 'roundtrip:double': 50000, 'roundtrip:Matrix': 300},
              'thorough': {'hist:quiescent_checks': 1000000, 'roundtrip:double': 1000000, 'roundtrip:Matrix': 1000}}


def replay(case, ctx):
    tmp = tempfile.mkdtemp(prefix='verif_c18_')
    try:
        exe, err = build(tmp, san=case.get('san', True))
        if exe is None:
            return [{'what': 'build failed', 'err': err[-500:]}]
        p = subprocess.run([exe, str(case.get('seed', 1)), str(case.get('nrand', 1000)), str(case.get('nhist', 100))],
                           stdout=subprocess.PIPE, stderr=subprocess.PIPE, timeout=3000)
        out = p.stdout.decode('utf8', 'replace')
        return [{'what': m.group(1), 'detail': m.group(2)} for m in re.finditer(r'^FAIL (.*?) :: (.*)$', out, re.M)][:10]
    finally:
        shutil.rmtree(tmp, ignore_errors=True)
