"""C08 - exactly the requested instantiations exist, in order, with stable names.

Same executions as C02 (real instantiate_namespace on template-heavy modules); this check
decides the content lists: count, product order, names, C++ spellings (Name<args> under the
template's namespace), typedef instantiations (exactly once, typedef's name), pass-through of
non-template declarations in order; plus an icontract post-condition on instantiate_name.
"""
import hashlib
from vlib import spec as S, render, ref_inst, instwork, monitors
from vlib.probes import run_probes
from checks import C02

PID = 'C08'
RULE = ('seeded template-heavy models (1-3 class-level x 1-3 member-level parameters, list lengths 0-5, '
        'numeric/templated/namespaced arguments, typedefs of classes, functions and forward-declared '
        'foreign templates before and after the template, in the same or an enclosing namespace, mixed with '
        'ordinary declarations) through the real instantiate_namespace; the complete per-namespace content '
        'list is compared with the reference expansion; non-trivial = model has a template or typedef')
ASSUMPTIONS = ['typedef instantiations may appear anywhere in their namespace (position not constrained by the property)',
               'instantiation lists contain no two arguments with the same instantiated name (user obligation)']
MIN_EVENTS = {'quick': {'contract:instantiate_name': 1000, 'entities_compared': 1500},
              'thorough': {'contract:instantiate_name': 20000, 'entities_compared': 30000}}


def plan(tier, seed):
    return {'cases': 320 if tier == 'quick' else 5000, 'watchdog_s': 1500 if tier == 'quick' else 7200}


def count_entities(desc):
    n = 0
    for d in desc:
        n += 1
        if d['kind'] == 'ns':
            n += count_entities(d['content'])
        elif d['kind'] == 'class':
            n += sum(len(d[k]) for k in ('ctors', 'methods', 'statics'))
    return n


def worker(ctx):
    monitors.install_instantiator_contracts()
    acc = ctx.acc
    for i in ctx.my_cases():
        seed = ctx.case_seed(i)
        mod = instwork.make_case(seed, ctx.tier, param_use=0.25)
        vs = C02.check_model(mod, acc, want='C08')
        text = render.render(mod)
        acc.count('entities_compared', count_entities(ref_inst.expand_module(mod)))
        acc.case(hashlib.sha256(text.encode()).hexdigest()[:16], instwork.nontrivial(mod))
        instwork.stats(mod, acc)
        for path, it in S.walk_items(mod.items):
            if it.k in ('Class', 'Func') and it.template:
                lens = tuple(len(p.insts) if p.insts is not None else 0 for p in it.template)
                acc.count('lists:%s:%s' % (it.k, 'x'.join(map(str, lens))))
        if i < 2:
            acc.sample({'case_seed': seed, 'text': text[:1500]})
        for v in vs[:3]:
            acc.violation({'gen': 'templ', 'case_seed': seed, 'tier': ctx.tier}, v)


def replay(case, ctx):
    monitors.install_instantiator_contracts()
    if 'probe' in case:
        sig = C02.probe_inst(case['witness'], ctx, 'C08')
        return [{'observed': sig}] if sig else []
    return C02.check_model(instwork.make_case(case['case_seed'], case['tier'], param_use=0.25), ctx.acc, 'C08')


def probes(ctx):
    monitors.install_instantiator_contracts()
    run_probes(ctx, PID, {'inst-text': lambda w, c: C02.probe_inst(w, c, 'C08')})
