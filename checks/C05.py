"""C05 - MATLAB call-site ids and the MEX dispatch table always agree.

Three-way, model-free oracle on every generated toolbox:
  (a) call sites extracted from every .m file with their context (class, role, member, arity)
  (b) the gateway switch: case id -> routine symbol
  (c) routine definitions with their identity read from the body
(a) and (c) must describe the same thing for the same id; ids are exactly 0..n-1, unique; every routine
is defined once and reachable from exactly one case; no case or routine without a call site; (d) the
number of ids equals the count computed from the model; (e) an icontract post-condition on the real
MatlabWrapper._update_wrapper_id (returned id == old counter, counter + 1, no map entry overwritten,
routine-name suffix == id + id_diff) is evaluated on every allocation.
"""
import hashlib, random, re
from vlib import spec as S, gen, cohgen, render, tool, mlab, mlwork, ref_matlab
from vlib.probes import run_probes

PID = 'C05'
RULE = ('seeded models designed to shift ids (virtual / non-virtual x with / without base x 0-3 constructors x 0-3 '
        'defaulted parameters, several virtual classes in a row, virtual class last, methods / statics / properties / '
        'functions in namespaces, templates, typedefs) from the coherent and the wild generator, both serialization '
        'settings, ignore lists; one case = one toolbox; non-trivial = toolbox with >=1 virtual class and >=1 defaulted '
        'parameter; distinct = sha256 of the interface text + options')
ASSUMPTIONS = ['the identity of a routine is read from its body by vlib/mlab.py (checkArguments label/count, collector, callee)',
               'no duplicate instantiation (user obligation)']
MIN_EVENTS = {'quick': {'ids_checked': 8000, 'contract:_update_wrapper_id': 8000},
              'thorough': {'ids_checked': 200000, 'contract:_update_wrapper_id': 200000}}
CONTRACT = {'evals': 0, 'fails': []}


def plan(tier, seed):
    return {'cases': 420 if tier == 'quick' else 8000, 'watchdog_s': 1500 if tier == 'quick' else 10800}


def install_contract():
    import icontract
    from gtwrap.matlab_wrapper.wrapper import MatlabWrapper
    if getattr(MatlabWrapper._update_wrapper_id, '_verif', False):
        return
    orig = MatlabWrapper._update_wrapper_id

    def snap_id(self):
        return self.wrapper_id

    def snap_keys(self):
        return set(self.wrapper_map)

    def post(self, collector_function, id_diff, function_name, result, OLD):
        CONTRACT['evals'] += 1
        try:
            if result != OLD.wid:
                CONTRACT['fails'].append('returned id %r != counter before the call %r' % (result, OLD.wid))
            if self.wrapper_id != OLD.wid + 1:
                CONTRACT['fails'].append('counter advanced from %r to %r' % (OLD.wid, self.wrapper_id))
            new = set(self.wrapper_map) - OLD.keys
            if collector_function is not None:
                if new != {OLD.wid}:
                    CONTRACT['fails'].append('map keys added %r, expected {%r}' % (sorted(new), OLD.wid))
                else:
                    name = self.wrapper_map[OLD.wid][3]
                    if not name.endswith('_' + str(OLD.wid + (id_diff or 0))):
                        CONTRACT['fails'].append('routine name %r does not carry id %r' % (name, OLD.wid + (id_diff or 0)))
            elif new:
                CONTRACT['fails'].append('unnamed id reserved but map changed: %r' % sorted(new))
        except Exception as e:
            CONTRACT['fails'].append('monitor error %s' % e)
        return True

    def wrapped(self, collector_function=None, id_diff=0, function_name=None):
        return orig(self, collector_function, id_diff, function_name)
    w = icontract.snapshot(snap_id, name='wid')(icontract.snapshot(snap_keys, name='keys')(
        icontract.ensure(post, error=RuntimeError)(wrapped)))
    w._verif = True
    MatlabWrapper._update_wrapper_id = w


def make_case(seed, tier):
    r = random.Random(seed)
    if r.random() < 0.5:
        k = cohgen.Knobs(classes=r.choice([2, 4, 6]), members=r.choice([3, 6]), ns_depth=r.choice([0, 1, 2]),
                         namespaces=r.choice([1, 2]), funcs=r.choice([0, 2, 4]))
        g = cohgen.CohGen(seed, k, target='matlab')
        mod = g.module()
        kind = 'coherent'
    else:
        knobs = gen.Knobs(items=r.choice([3, 5]), members=r.choice([4, 8]), ns_depth=r.choice([1, 2]), inst_len=3)
        g = gen.WildGen(seed, knobs, multiline_defaults=False, typedefs=True, typedef_same_ns=True, param_use=0.3, this_use=0.05,
                        class_template_p=0.3, operators=False, dunders=False, includes=False, special_names=0.15)
        mod = g.module()
        kind = 'wild'
    ser = r.random() < 0.4
    return mod, {'ser': ser, 'ignore': [], 'kind': kind}


USER_NAMED = set()      # simple class names whose *declaration* has a member called string_serialize / string_deserialize
BOTH = set()            # ... and that also get the generated serialization support (two functions of one name: not decided)


def check_toolbox(tb, acc, expect_ids=None):
    vs = []
    cpp = tb.cpp
    if cpp is None:
        return [{'what': 'no MEX source %s_wrapper.cpp produced' % tb.module}]
    used = tb.all_ids_in_m()
    acc.count('ids_checked', len(used))
    n = len(used)
    if sorted(used) != list(range(n)):
        dup = sorted({i for i in used if used.count(i) > 1})
        vs.append({'what': 'ids used by the .m files are not exactly 0..n-1, each once', 'duplicates': dup[:5],
                   'missing': sorted(set(range(max(used + [0]) + 1)) - set(used))[:5]})
    case_ids = [i for i, _ in cpp['cases']]
    if sorted(case_ids) != list(range(len(case_ids))) or len(case_ids) != n:
        vs.append({'what': 'switch cases are not exactly the ids used by the .m files',
                   'cases': len(case_ids), 'call_site_ids': n,
                   'only_in_cases': sorted(set(case_ids) - set(used))[:5], 'only_in_m': sorted(set(used) - set(case_ids))[:5]})
    routines = {}
    for r in cpp['routines']:
        sym = '%s_%d' % (r['name'], r['id'])
        if sym in routines:
            vs.append({'what': 'gateway routine defined twice', 'routine': sym})
        routines[sym] = r
    called = {}
    for i, sym in cpp['cases']:
        if sym not in routines:
            vs.append({'what': 'case calls an undefined routine', 'id': i, 'routine': sym})
            continue
        if sym in called:
            vs.append({'what': 'routine reachable from two cases', 'routine': sym, 'ids': [called[sym], i]})
        called[sym] = i
        if routines[sym]['id'] != i:
            vs.append({'what': 'case id and routine suffix differ', 'id': i, 'routine': sym})
    for sym in routines:
        if sym not in called:
            vs.append({'what': 'routine defined but unreachable from the switch', 'routine': sym})
    by_id = {i: routines.get(sym) for i, sym in cpp['cases']}
    # identity agreement between call site and routine
    for s in tb.sites:
        r = by_id.get(s['id'])
        if r is None:
            continue
        acc.count('site:' + s['role'])
        why = identity_mismatch(s, r)
        if why:
            vs.append({'what': 'call site and routine for id %d describe different things' % s['id'], 'why': why,
                       'site': {k: v for k, v in s.items() if k in ('file', 'role', 'member', 'arity', 'class')},
                       'routine': r['name'] + '_%d' % r['id']})
    if expect_ids is not None and expect_ids != n:
        vs.append({'what': 'number of ids differs from the count computed from the model', 'expected': expect_ids, 'actual': n})
    return vs


def identity_mismatch(s, r):
    role = s['role']
    if role == 'collector':
        if r['role'] != 'collector':
            return 'routine is a %s' % r['role']
        if r.get('collector') != s['collector']:
            return 'inserts into collector_%s, call site belongs to %s' % (r.get('collector'), s['collector'])
        if s.get('returns_base') != ('shared_base' in r):
            return 'base pointer expectation differs'
    elif role == 'upcast':
        if r['role'] != 'upcast':
            return 'routine is a %s' % r['role']
        if not r['name'].startswith(s['class'] + '_upcastFromVoid'):
            return 'up-cast routine of another class: %s' % r['name']
    elif role == 'constructor':
        if r['role'] != 'constructor':
            return 'routine is a %s' % r['role']
        if r.get('collector') != s['collector']:
            return 'constructs into collector_%s' % r.get('collector')
        if len(r['unwraps']) != s['arity']:
            return 'routine unwraps %d arguments, call site passes %d' % (len(r['unwraps']), s['arity'])
    elif role == 'deconstructor':
        if r['role'] != 'deconstructor':
            return 'routine is a %s' % r['role']
        if r.get('collector') != s['collector']:
            return 'erases from collector_%s' % r.get('collector')
    elif role in ('method', 'static') and s.get('member') in ('string_serialize', 'string_deserialize') and \
            s.get('class') in BOTH:
        return None
    elif role in ('method', 'static') and s.get('member') in ('string_serialize', 'string_deserialize') and \
            s.get('class') not in USER_NAMED:
        want = 'serialize' if s['member'] == 'string_serialize' else 'deserialize'
        if r['role'] != want:
            return 'routine is a %s' % r['role']
        if not r['name'].startswith(s['collector'] + '_' + s['member']):
            return 'serialization routine of another class: %s' % r['name']
    elif role in ('method', 'static', 'function', 'get', 'set'):
        if r['role'] != 'call':
            return 'routine is a %s' % r['role']
        chk = r.get('check')
        if not chk:
            return 'routine has no checkArguments'
        if chk['count'] != s['arity']:
            return 'routine expects %d arguments, call site branch has %d' % (chk['count'], s['arity'])
        if role in ('method', 'get', 'set'):
            if not r.get('self') or r['self']['ptr'] != 'ptr_' + s['collector']:
                return 'routine unwraps self as %s' % (r.get('self') or {}).get('ptr')
            if chk['label'] != s['member'].split('.')[-1] and role == 'method' and not chk['label'].startswith(s['member']) \
                    and not s['member'].startswith(chk['label']):
                return 'routine is for member %s' % chk['label']
            if role in ('get', 'set'):
                if not re.search(r'_%s_%s$' % (role, re.escape(s['member'])), r['name']):
                    return 'routine %s is not the %s accessor of %s' % (r['name'], role, s['member'])
                if not any(('obj->%s' % s['member']) in st for st in r.get('statements', [])):
                    return 'accessor does not touch obj->%s' % s['member']
            else:
                stm = ' '.join(r.get('statements', []))
                base = r['name'][len(s['collector']) + 1:] if r['name'].startswith(s['collector'] + '_') else chk['label']
                if not s['member'].startswith(base):
                    return 'routine %s is not for member %s' % (r['name'], s['member'])
                if ('obj->' + base) not in stm:
                    return 'routine does not call obj->%s' % base
        elif role == 'static':
            if not chk['label'].endswith('.' + s['member']) and chk['label'].split('.')[-1] not in s['member']:
                return 'routine is for %s' % chk['label']
            if r.get('self'):
                return 'static routine unwraps a receiver'
        else:
            if chk['label'] != s['member'] and not s['member'].startswith(chk['label']):
                return 'routine is for function %s' % chk['label']
            if r.get('self'):
                return 'function routine unwraps a receiver'
    return None


def run_case(seed, tier, acc):
    mod, opts = make_case(seed, tier)
    text = render.render(mod)
    CONTRACT['fails'] = []
    before = CONTRACT['evals']
    try:
        tb = mlwork.Toolbox(text, 'modx', opts['ignore'], opts['ser'])
    except Exception as e:
        if opts['kind'] == 'coherent':
            return [{'what': 'MATLAB generation failed on a coherent model', 'error': '%s: %s' % (type(e).__name__, str(e)[:200]),
                     'text': text[:2500]}], text, opts
        acc.count('wild_generation_failed(decided by C10)')
        return [], text, opts
    acc.count('contract:_update_wrapper_id', CONTRACT['evals'] - before)
    USER_NAMED.clear()
    BOTH.clear()
    exp = None
    try:
        E = ref_matlab.Expect(mod, 'modx', opts['ignore'], opts['ser'])
        exp = E.nids
        for d in (E.classes.values() if isinstance(E.classes, dict) else E.classes):
            if any(getattr(m, 'name', None) in ('string_serialize', 'string_deserialize') for m in d['model'].members):
                # an ordinary member that happens to carry the name of the generated serialization support: its
                # call sites lead to ordinary routines
                if opts['ser'] and any(getattr(m, 'name', None) == 'serialize' and m.k == 'Method' for m in d['model'].members):
                    BOTH.add(d['name'])
                else:
                    USER_NAMED.add(d['name'])
    except Exception:
        acc.count('reference_count_unavailable')
    vs = check_toolbox(tb, acc, exp)
    for f in CONTRACT['fails'][:2]:
        vs.append({'what': 'contract on _update_wrapper_id violated', 'detail': f})
    for v in vs:
        v['text'] = text[:2500]
        v['options'] = opts
    return vs, text, opts


def worker(ctx):
    install_contract()
    acc = ctx.acc
    for i in ctx.my_cases():
        seed = ctx.case_seed(i)
        vs, text, opts = run_case(seed, ctx.tier, acc)
        nontriv = 'virtual class' in text and ' = ' in text
        acc.case(hashlib.sha256((text + repr(opts)).encode()).hexdigest()[:16], nontriv)
        acc.count('kind:' + opts['kind'])
        if i < 1:
            acc.sample({'case_seed': seed, 'options': opts, 'text': text[:1000]})
        for v in vs[:3]:
            acc.violation({'case_seed': seed, 'tier': ctx.tier}, v)


def replay(case, ctx):
    install_contract()
    if 'probe' in case:
        s = probe(case['witness'], ctx)
        return [{'observed': s}] if s else []
    return run_case(case['case_seed'], case['tier'], ctx.acc)[0]


def probes(ctx):
    install_contract()
    run_probes(ctx, PID, {'toolbox-ids': probe})


def probe(witness, ctx):
    tb = mlwork.Toolbox(witness['text'], 'modx', witness.get('ignore', []), witness.get('ser', False))
    vs = check_toolbox(tb, ctx.acc)
    return vs[0]['what'] if vs else None
