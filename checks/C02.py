"""C02 - template instantiation is exact, capture-free substitution.

Monitors: (1) reference substitution (vlib.ref_inst) on the generator model vs the spelling of
every type of every instantiated member produced by the real instantiate_namespace; (2) an
icontract post-condition on the real helpers.instantiate_type, evaluated on every call, that
redoes the substitution on the real Type objects with an independent tree walk and also checks
that the input object was not modified.
"""
import hashlib
from vlib import spec as S, render, ref_inst, instwork, monitors
from vlib.probes import run_probes

PID = 'C02'
RULE = ('seeded template-heavy interface models (class-, member- and function-level parameters, '
        'parameters occurring bare / scoped (T::X) / inside template arguments / under every qualifier / '
        'in pair halves / in bases, `This` bare and scoped, near-miss identifiers containing a parameter\'s '
        'spelling, namespaced/templated/numeric concrete arguments) run through the real '
        'instantiate_namespace; non-trivial = the model contains a template or typedef; distinct = sha256 of text')
ASSUMPTIONS = ['reference substitution semantics as stated in the property (vlib/ref_inst.py)',
               '`This` may be spelled with or without the class namespaces (both denote the class)',
               'flagged constructs (known findings) only through witness probes']
MIN_EVENTS = {'quick': {'contract:instantiate_type': 2000, 'member_types_compared': 2000},
              'thorough': {'contract:instantiate_type': 40000, 'member_types_compared': 40000}}


def plan(tier, seed):
    return {'cases': 320 if tier == 'quick' else 5000, 'watchdog_s': 1500 if tier == 'quick' else 7200}


def count_types(desc):
    n = 0
    for d in desc:
        if d['kind'] == 'ns':
            n += count_types(d['content'])
        elif d['kind'] == 'class':
            for k in ('ctors', 'methods', 'statics', 'ops', 'dunders'):
                for m in d[k]:
                    n += len(m['args']) + (1 if 'ret' in m else 0)
            n += len(d['props']) + (1 if d['base'] else 0)
        elif d['kind'] == 'func':
            n += len(d['args']) + 1
    return n


def check_model(mod, acc, want='C02'):
    text = render.render(mod)
    monitors.REC.reset()
    try:
        tree = instwork.instantiate(text)
    except Exception as e:
        return [{'what': 'instantiation of a well-formed module failed',
                 'error': '%s: %s' % (type(e).__name__, str(e)[:300]), 'text': text}]
    exp = ref_inst.expand_module(mod)
    act = ref_inst.describe_real(tree)
    acc.count('member_types_compared', count_types(exp))
    out = []
    for d in ref_inst.compare(exp, act):
        cat = instwork.diff_category(d)
        if cat == want:
            out.append({'what': 'instantiated declaration differs from reference substitution',
                        'diff': repr(d)[:1200], 'text': text})
        else:
            acc.count('diffs_of_other_property')
    if want == 'C08':
        import re as _re

        def names(ds):
            for d in ds:
                if d['kind'] == 'ns':
                    yield from names(d['content'])
                elif d['kind'] in ('class', 'func', 'decl'):
                    yield d['name']
                    for k in ('methods', 'statics'):
                        for m in d.get(k, []):
                            yield m['name']
        for nm in names(act):
            if not _re.match(r'^[A-Za-z_]\w*$', nm):
                out.append({'what': 'instantiated name is not an identifier', 'name': nm, 'text': text})
                break
    for name, n in monitors.REC.evaluations.items():
        acc.count('contract:' + name, n)
    if want == 'C02':
        for name, detail in monitors.REC.failures:
            if name.startswith('instantiate_type'):
                out.append({'what': 'contract on %s violated' % name, 'detail': detail, 'text': text})
    else:
        for name, detail in monitors.REC.failures:
            if name.startswith('instantiate_name'):
                out.append({'what': 'contract on %s violated' % name, 'detail': detail, 'text': text})
    return out


def worker(ctx):
    monitors.install_instantiator_contracts()
    acc = ctx.acc
    for i in ctx.my_cases():
        seed = ctx.case_seed(i)
        mod = instwork.make_case(seed, ctx.tier)
        vs = check_model(mod, acc)
        text = render.render(mod)
        acc.case(hashlib.sha256(text.encode()).hexdigest()[:16], instwork.nontrivial(mod))
        instwork.stats(mod, acc)
        if i < 2:
            acc.sample({'case_seed': seed, 'text': text[:1500]})
        for v in vs[:3]:
            acc.violation({'gen': 'templ', 'case_seed': seed, 'tier': ctx.tier}, v)


def replay(case, ctx):
    monitors.install_instantiator_contracts()
    if 'probe' in case:
        sig = probe_inst(case['witness'], ctx)
        return [{'observed': sig}] if sig else []
    return check_model(instwork.make_case(case['case_seed'], case['tier']), ctx.acc)


def probes(ctx):
    monitors.install_instantiator_contracts()
    run_probes(ctx, PID, {'inst-text': probe_inst})


def probe_inst(witness, ctx, want='C02'):
    """witness: {'model': json}; signature = first diff field + expected/actual spelling."""
    mod = S.from_json(witness['model'])
    vs = check_model(mod, ctx.acc, want)
    if not vs:
        return None
    v = vs[0]
    if 'diff' in v:
        return v['diff'][:400]
    return '%s %s' % (v['what'], str(v.get('detail', v.get('error')))[:300])
