"""C16 - multiple interface files and the command-line scripts compose consistently.

Differential oracles over executions of the real API and scripts:
 (pybind) main output declares `void <stem>(py::module_ &);` and calls `<stem>(m_);` once per additional
          file, in order; wrap_submodule(f) = `void <stem>(py::module_ &m_)` around exactly the body and
          includes that wrapping f's text alone yields
 (matlab) wrap([f1..fn]) equals wrap of one file holding the declarations in sequence, for any final
          characters of the fi
 (scripts) each script's output equals the API's output for the corresponding options, over the option
          matrix (--top_module_namespaces depth 0-3, --ignore absent/empty/names, --is_submodule,
          --use-boost-serialization)
"""
import hashlib, os, random, shutil, subprocess, sys, tempfile
from vlib import spec as S, gen, render, tool, pyinv
from vlib.probes import run_probes
from vlib.runner import REPO

PID = 'C16'
RULE = ('seeded models split at declaration boundaries into 2-5 files whose ends are drawn from {newline, '
        'nothing, blank, block comment, line comment without newline}; option matrix for the scripts; one case = '
        'one split or one script run; non-trivial = >=2 files or a non-default option; distinct = sha256 of '
        'file contents + options')
ASSUMPTIONS = ['files are sequences of complete declarations (split points are declaration boundaries)',
               'file ends with an unterminated line comment and omitted --ignore are excluded while the '
               'corresponding known findings (D15, D16) are open']
MIN_EVENTS = {'quick': {'splits': 80, 'script_runs': 40, 'submodule_comparisons': 80},
              'thorough': {'splits': 1500, 'script_runs': 600, 'submodule_comparisons': 1500}}
# flagged input classes (known findings); switched on by probes when the finding is marked fixed
FLAG_LINE_COMMENT_END = True    # file ending in a line comment without newline (D15, repaired)
FLAG_OMIT_IGNORE = True         # --ignore omitted (D16, repaired)
ENDS = ['\n', '', ' ', '\n\n', ' /* tail */', '\t\n', '  // trailing line comment\n', '\n// comment line of its own\n', ' // c\n\n']


def plan(tier, seed):
    return {'cases': 100 if tier == 'quick' else 1600, 'scripts': 48 if tier == 'quick' else 640,
            'watchdog_s': 1500 if tier == 'quick' else 10800}


def make_files(seed, tier):
    r = random.Random(seed)
    knobs = gen.Knobs(items=r.choice([3, 4, 6]), members=r.choice([2, 4]), ns_depth=r.choice([1, 2, 3]))
    g = gen.WildGen(seed, knobs, typedefs=False, param_use=0.3, this_use=0.05, special_names=0.1, reopen_ns=0.4)
    mod = g.module()
    items = list(mod.items)
    while len(items) < 2:
        items.append(g.item(0))
    k = min(len(items), r.choice([2, 2, 3, 4, 5]))
    cuts = sorted(r.sample(range(1, len(items)), k - 1))
    parts = [items[a:b] for a, b in zip([0] + cuts, cuts + [len(items)])]
    ends = list(ENDS) + (['// trailing comment'] if FLAG_LINE_COMMENT_END else [])
    files = []
    for p in parts:
        files.append(render.render(S.Module(tuple(p))).rstrip('\n') + r.choice(ends))
    # a later file may refer to a template of an earlier one (the MATLAB generator reads the list as one text;
    # a Python additional file on its own cannot resolve it, with wrap_submodule and with wrap_file alike)
    early = [it for p in parts[:-1] for it in p if it.k == 'Class' and it.template]
    if early and r.random() < 0.4:
        c = r.choice(early)
        args = ', '.join(r.choice(['int', 'double', 'other::Thing']) for _ in c.template)
        files[-1] = 'typedef %s<%s> CrossFile%d;\n' % (c.name, args, seed % 1000) + files[-1]
    return mod, parts, files


def options(r, mod):
    paths = [()]
    for path, it in S.walk_items(mod.items):
        if it.k == 'Namespace':
            paths.append(path + (it.name,))
    top = r.choice(paths) if r.random() < 0.6 else ()
    cls = ['::'.join(path + (it.name,)) for path, it in S.walk_items(mod.items)
           if it.k == 'Class' and not it.template and not any(m.k == 'Enum' for m in it.members)]
    # instantiations of templates with two or more parameters: their C++ names contain ", "
    from vlib import ref_inst
    import itertools
    for path, it in S.walk_items(mod.items):
        if it.k == 'Class' and it.template and len(it.template) >= 2 and all(p.insts for p in it.template) and \
                not any(m.k == 'Enum' for m in it.members):
            combo = next(itertools.product(*[p.insts for p in it.template]))
            cls.append(ref_inst.cpp_typename(S.T(it.name, path, combo)))
    x = r.random()
    if x < 0.3 and FLAG_OMIT_IGNORE:
        ignore = None
    elif x < 0.55:
        ignore = []
    else:
        ignore = r.sample(cls, min(len(cls), r.choice([1, 2, 3]))) + (['nope::Nope'] if r.random() < 0.3 else [])
    return {'top': list(top), 'ignore': ignore, 'ser': r.random() < 0.4}


class Dir:
    def __init__(self):
        self.root = tempfile.mkdtemp(prefix='verif_c16_')

    def write(self, name, content):
        p = os.path.join(self.root, name)
        os.makedirs(os.path.dirname(p), exist_ok=True)
        with open(p, 'w', encoding='utf-8') as f:
            f.write(content)
        return p

    def close(self):
        shutil.rmtree(self.root, ignore_errors=True)


def check_split(seed, tier, acc):
    from gtwrap.pybind_wrapper import PybindWrapper
    from gtwrap.matlab_wrapper import MatlabWrapper
    mod, parts, files = make_files(seed, tier)
    r = random.Random(seed ^ 0xC16)
    d = Dir()
    vs = []
    try:
        # additional files in an order that is not the sorted one, upper / lower case, `.i` or `.h`
        pool = ['zeta', 'alpha', 'Mid', 'geo2', 'nav', 'x9', 'Beta', 'part1', 'part10', 'part2', 'core_types']
        r.shuffle(pool)
        stems = ['main'] + pool[:len(files) - 1]
        exts = ['.i'] + [r.choice(['.i', '.i', '.h']) for _ in files[1:]]
        paths = [d.write('src/%s%s' % (s, e), c) for s, e, c in zip(stems, exts, files)]
        acc.count('additional_files_dot_h', sum(1 for e in exts if e == '.h'))
        # an additional file may be a symbolic link to a file of another name: the part is named after the link
        for k in range(1, len(paths)):
            if r.random() < 0.25:
                real = d.write('interfaces/%s_v2%s' % (stems[k], exts[k]), files[k])
                os.remove(paths[k])
                os.symlink(real, paths[k])
                acc.count('additional_files_symlinked')
        opts = options(r, mod)
        top = [''] + opts['top']
        ign = opts['ignore'] or []
        # ---- pybind main
        w = PybindWrapper(module_name='modx', top_module_namespaces=top, ignore_classes=ign,
                          module_template=tool.TPL, use_boost_serialization=opts['ser'])
        out = os.path.join(d.root, 'main_out.cpp')
        old = os.getcwd()
        os.chdir(d.root)
        try:
            res = tool.outcome(w.wrap, list(paths), out)
            acc.count('splits')
            if res[0] == 'ok':
                text = open(out).read()
                inv = pyinv.extract(text)
                if inv['fwd_decls'] != stems[1:]:
                    vs.append({'what': 'forward declarations of additional files wrong', 'expected': stems[1:],
                               'actual': inv['fwd_decls']})
                if inv['init_calls'] != stems[1:]:
                    vs.append({'what': 'initialiser invocations of additional files wrong', 'expected': stems[1:],
                               'actual': inv['init_calls']})
                if not inv['module_def'].startswith('PYBIND11_MODULE(modx'):
                    vs.append({'what': 'main module definition wrong', 'actual': inv['module_def']})
                alone = tool.pybind_text(files[0], top=top, ignore=ign, ser=opts['ser'], module='modx')
                b1 = pyinv.module_body(text)[0].replace('\n'.join('%s(m_);' % s for s in stems[1:]), '', 1)
                b2 = pyinv.module_body(alone)[0]
                if ws(b1) != ws(b2):
                    vs.append({'what': 'main file body is not what wrapping the main file alone yields'})
            else:
                acc.count('pybind_main_failed(decided elsewhere)')
            # ---- submodules
            shared_w = PybindWrapper(module_name='modx', top_module_namespaces=top, ignore_classes=ign,
                                     module_template=tool.TPL, use_boost_serialization=opts['ser']) if seed % 2 else None
            acc.count('submodules_through_one_wrapper_object' if shared_w else 'submodules_through_fresh_wrapper_objects')
            for stem, path, content in zip(stems[1:], paths[1:], files[1:]):
                # one wrapper object for all additional files, or a fresh one per file: the output may not depend on it
                w2 = shared_w or PybindWrapper(module_name='modx', top_module_namespaces=top, ignore_classes=ign,
                                               module_template=tool.TPL, use_boost_serialization=opts['ser'])
                res = tool.outcome(w2.wrap_submodule, path)
                alone = tool.outcome(tool.pybind_text, content, top, ign, opts['ser'], 'modx')
                acc.count('submodule_comparisons')
                if res[0] != alone[0]:
                    vs.append({'what': 'wrap_submodule outcome differs from wrapping the text alone',
                               'submodule': str(res)[:200], 'alone': str(alone)[:200]})
                    continue
                if res[0] != 'ok':
                    continue
                produced = os.path.join(d.root, stem + '.cpp')
                if not os.path.exists(produced):
                    vs.append({'what': 'wrap_submodule did not write <stem>.cpp into the working directory', 'stem': stem})
                    continue
                sub = open(produced).read()
                sb, sdef, spre, spost = pyinv.module_body(sub)
                ab, adef, apre, apost = pyinv.module_body(alone[1])
                if ws(sdef) != 'void %s(py::module_ &m_)' % stem:
                    vs.append({'what': 'submodule initialiser has the wrong signature', 'actual': sdef, 'stem': stem})
                if sb.replace('wrapper of ' + stem, 'wrapper of modx') != ab:
                    vs.append({'what': 'submodule body differs from wrapping its text alone', 'stem': stem})
                if spre != apre:
                    vs.append({'what': 'submodule includes/preamble differ from wrapping its text alone', 'stem': stem})
        finally:
            os.chdir(old)
        # ---- matlab: list of files == one file with the declarations in sequence
        def ml(fs):
            outd = tempfile.mkdtemp(prefix='ml', dir=d.root)
            wm = MatlabWrapper(module_name='modx', ignore_classes=[], use_boost_serialization=False)
            wm.wrap(fs, path=outd)
            return tool.read_tree(outd)
        joined = d.write('src/joined.i', '\n'.join(files) + '\n')
        a = tool.outcome(ml, list(paths))
        b = tool.outcome(ml, [joined])
        acc.count('matlab_list_vs_joined')
        if a != b:
            what = 'matlab: wrapping the file list differs from wrapping one file with the same declarations'
            det = {}
            if a[0] == 'ok' and b[0] == 'ok':
                ks = sorted(set(a[1]) | set(b[1]))
                k = next(k for k in ks if a[1].get(k) != b[1].get(k))
                det = {'file': k, 'in_list_run': k in a[1], 'in_joined_run': k in b[1]}
            else:
                det = {'list': str(a)[:200], 'joined': str(b)[:200]}
            vs.append({'what': what, **det})
        for v in vs:
            v['files'] = [f[-300:] for f in files]
            v['options'] = opts
        acc.case(hashlib.sha256(('|'.join(files) + repr(opts)).encode()).hexdigest()[:16], len(files) >= 2)
        for f in files:
            acc.count('file_end:' + repr(f[len(f.rstrip()):] if not f.rstrip().endswith(('*/', 'comment')) else f[-12:]))
        if seed % 50 == 0:
            acc.sample({'files': [f[:300] for f in files], 'options': opts})
    finally:
        d.close()
    return vs


def ws(s):
    import re
    return re.sub(r'\s+', ' ', s).strip()


def check_script(seed, tier, acc):
    """one option combination: script output vs API output."""
    from gtwrap.pybind_wrapper import PybindWrapper
    from gtwrap.matlab_wrapper import MatlabWrapper
    mod, parts, files = make_files(seed, tier)
    r = random.Random(seed ^ 0x5C16)
    opts = options(r, mod)
    kind = r.choice(['pybind', 'pybind', 'pybind_sub', 'matlab', 'matlab'])
    d = Dir()
    vs = []
    env = dict(os.environ)
    env['PYTHONPATH'] = REPO
    try:
        stems = ['main'] + ['extra%d' % i for i in range(1, len(files))]
        # the source directory may carry a blank or a comma (the file list is separated by ';' only)
        srcdir = r.choice(['src', 'src', 'My Projects/src', 'robot,v2', 'a b,c'])
        acc.count('script_srcdir:' + ('plain' if srcdir == 'src' else 'blank_or_comma'))
        paths = [d.write('%s/%s.i' % (srcdir, s), c) for s, c in zip(stems, files)]
        tplp = d.write('%s/tpl.tpl' % srcdir, tool.TPL)
        top = [''] + opts['top']
        ign = opts['ignore']
        cwd_s = os.path.join(d.root, 'cwd_script')
        cwd_a = os.path.join(d.root, 'cwd_api')
        os.makedirs(cwd_s)
        os.makedirs(cwd_a)
        common = []
        if opts['top']:
            common += ['--top_module_namespaces', '::'.join(opts['top'])]
        if ign is not None:
            common += ['--ignore'] + list(ign)
        if opts['ser']:
            common += ['--use-boost-serialization']
        old = os.getcwd()
        if kind in ('pybind', 'pybind_sub'):
            src = ';'.join(paths) if kind == 'pybind' else paths[-1]
            cmd = [sys.executable, os.path.join(REPO, 'scripts', 'pybind_wrap.py'), '--src', src, '--module_name', 'modx',
                   '--out', os.path.join(cwd_s, 'out.cpp'), '--template', tplp] + common
            if kind == 'pybind_sub':
                cmd.append('--is_submodule')
            p = subprocess.run(cmd, cwd=cwd_s, env=env, stdout=subprocess.PIPE, stderr=subprocess.PIPE, timeout=600)
            os.chdir(cwd_a)
            try:
                w = PybindWrapper(module_name='modx', top_module_namespaces=top, ignore_classes=ign if ign is not None else [],
                                  module_template=tool.TPL, use_boost_serialization=opts['ser'])
                if kind == 'pybind':
                    res = tool.outcome(w.wrap, list(paths), os.path.join(cwd_a, 'out.cpp'))
                else:
                    res = tool.outcome(w.wrap_submodule, paths[-1])
            finally:
                os.chdir(old)
        else:
            cmd = [sys.executable, os.path.join(REPO, 'scripts', 'matlab_wrap.py'), '--src', ';'.join(paths),
                   '--module_name', 'modx', '--out', os.path.join(cwd_s, 'toolbox')] + common
            p = subprocess.run(cmd, cwd=cwd_s, env=env, stdout=subprocess.PIPE, stderr=subprocess.PIPE, timeout=600)
            os.chdir(cwd_a)
            try:
                w = MatlabWrapper(module_name='modx', top_module_namespace=top, ignore_classes=ign if ign is not None else [],
                                  use_boost_serialization=opts['ser'])
                res = tool.outcome(w.wrap, list(paths), os.path.join(cwd_a, 'toolbox'))
            finally:
                os.chdir(old)
        acc.count('script_runs')
        acc.count('script:%s:%s' % (kind, 'ok' if p.returncode == 0 else 'fail'))
        acc.count('opt:top%d:ignore_%s:ser%d' % (len(opts['top']), 'omitted' if ign is None else min(len(ign), 2), opts['ser']))
        api_ok = res[0] == 'ok'
        if (p.returncode == 0) != api_ok:
            vs.append({'what': '%s script and API disagree on success' % kind, 'script_rc': p.returncode,
                       'stderr': p.stderr.decode('utf8', 'replace')[-400:], 'api': str(res)[:300]})
        elif api_ok:
            ts, ta = tool.read_tree(cwd_s), tool.read_tree(cwd_a)
            if ts != ta:
                ks = sorted(set(ts) | set(ta))
                k = next(k for k in ks if ts.get(k) != ta.get(k))
                vs.append({'what': '%s script output differs from the API output' % kind, 'file': k,
                           'in_script': k in ts, 'in_api': k in ta})
        for v in vs:
            v['options'] = opts
            v['files'] = [f[-200:] for f in files]
        acc.case(hashlib.sha256(('|'.join(files) + repr(opts) + kind).encode()).hexdigest()[:16],
                 bool(opts['top'] or opts['ignore'] or opts['ser'] or kind == 'pybind_sub'))
    finally:
        d.close()
    return vs


def worker(ctx):
    acc = ctx.acc
    n = ctx.plan['cases']
    for i in ctx.my_cases(n):
        seed = ctx.case_seed(i)
        for v in check_split(seed, ctx.tier, acc)[:3]:
            acc.violation({'kind': 'split', 'case_seed': seed, 'tier': ctx.tier}, v)
    for i in ctx.my_cases(ctx.plan['scripts']):
        seed = ctx.case_seed(100000 + i)
        for v in check_script(seed, ctx.tier, acc)[:2]:
            acc.violation({'kind': 'script', 'case_seed': seed, 'tier': ctx.tier}, v)


def replay(case, ctx):
    if 'probe' in case:
        s = probe(case['witness'], ctx)
        return [{'observed': s}] if s else []
    if case['kind'] == 'split':
        return check_split(case['case_seed'], case['tier'], ctx.acc)
    return check_script(case['case_seed'], case['tier'], ctx.acc)


def probes(ctx):
    run_probes(ctx, PID, {'matlab-files': probe_files, 'script-args': probe_script})


def probe_files(witness, ctx):
    """witness: {'files': [texts]}: list run vs joined run of the MATLAB generator."""
    from gtwrap.matlab_wrapper import MatlabWrapper
    d = Dir()
    try:
        paths = [d.write('src/f%d.i' % i, c) for i, c in enumerate(witness['files'])]
        joined = d.write('src/joined.i', '\n'.join(witness['files']) + '\n')

        def ml(fs):
            outd = tempfile.mkdtemp(prefix='ml', dir=d.root)
            MatlabWrapper(module_name='modx', ignore_classes=[]).wrap(fs, path=outd)
            return sorted(tool.read_tree(outd))
        a, b = tool.outcome(ml, paths), tool.outcome(ml, [joined])
        if a == b:
            return None
        if a[0] == 'ok' and b[0] == 'ok':
            return 'files only in joined run: %s; only in list run: %s' % (sorted(set(b[1]) - set(a[1])), sorted(set(a[1]) - set(b[1])))
        return 'outcomes differ: %s vs %s' % (a[0], b[0])
    finally:
        d.close()


def probe_script(witness, ctx):
    """witness: {'script': 'pybind'|'matlab', 'text': ..., 'args': [...]} -> exit status signature"""
    d = Dir()
    env = dict(os.environ)
    env['PYTHONPATH'] = REPO
    try:
        src = d.write('src/main.i', witness['text'])
        tplp = d.write('src/tpl.tpl', tool.TPL)
        if witness['script'] == 'pybind':
            cmd = [sys.executable, os.path.join(REPO, 'scripts', 'pybind_wrap.py'), '--src', src, '--module_name', 'modx',
                   '--out', os.path.join(d.root, 'out.cpp'), '--template', tplp] + witness['args']
        else:
            cmd = [sys.executable, os.path.join(REPO, 'scripts', 'matlab_wrap.py'), '--src', src, '--module_name', 'modx',
                   '--out', os.path.join(d.root, 'toolbox')] + witness['args']
        p = subprocess.run(cmd, cwd=d.root, env=env, stdout=subprocess.PIPE, stderr=subprocess.PIPE, timeout=600)
        if p.returncode == 0:
            return None
        err = p.stderr.decode('utf8', 'replace').strip().split('\n')[-1]
        return 'exit %d: %s' % (p.returncode, err[:120])
    finally:
        d.close()
