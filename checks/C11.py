"""C11 - MEX gateway calls reach the right C++ code and never leak or double-free.

Executions of the generated gateway: the emitted <module>_wrapper.cpp is compiled unedited with the real
matlab.h (ASan + UBSan + LeakSanitizer) against the harness' mock MEX runtime and a machine-generated
instrumented library; a session simulator issues exactly the gateway calls the generated .m files would
issue (ids, guards, output counts and class chaining are extracted from those files) in random histories:
constructing through every overload and arity, methods on base and derived instances, statics, functions,
property accessors, objects received back and adopted as new handles, the 'void' up-cast constructor,
deletion in MATLAB order, unloading.  Offline checker over the recorded event log: every call must show
the declared entity with the supplied values followed by the defaults' values, the MATLAB-side result
must be the library's value, and after every operation the library's live-object counters must equal
the ownership model (each MATLAB handle owns one heap shared_ptr; deletion releases exactly once; unload
releases everything).  This also is the behavioural half of C05 (every id executed) and C06.
"""
import hashlib, os, random, shutil, subprocess, tempfile
from vlib import spec as S, cohgen, render, cxxlib, mlwork, mlsim
from vlib.probes import run_probes

PID = 'C11'
RULE = ('seeded coherent models over the MATLAB execute-universe -> generated toolbox + gateway; per gateway H random '
        'histories of 30-200 operations over all classes / inheritance chains; one case = one history; non-trivial = '
        'history with >=1 delete and >=1 object received back from C++; distinct = sha256(text, history seed)')
ASSUMPTIONS = ['MATLAB is replaced by the call plan extracted from the generated .m files (guards, ids, outputs, constructor / destructor chaining)',
               'mock MEX runtime and instrumented library are trusted; serialization routines are not executed (no Boost)',
               'using a handle after unload is a user error and not part of the histories']
MIN_EVENTS = {'quick': {'gateways_built': 6, 'ops:CALL': 1500, 'quiescent_live_checks': 5000, 'trace_lines_compared': 2500},
              'thorough': {'gateways_built': 100, 'ops:CALL': 60000, 'quiescent_live_checks': 200000, 'trace_lines_compared': 90000}}


def plan(tier, seed):
    return {'cases': 32 if tier == 'quick' else 240, 'histories': 40 if tier == 'quick' else 300,
            'watchdog_s': 2400 if tier == 'quick' else 14400}


def make_model(seed):
    r = random.Random(seed)
    k = cohgen.Knobs(classes=r.choice([2, 3, 4]), members=r.choice([4, 6, 8]), ns_depth=r.choice([0, 1, 2]),
                     namespaces=r.choice([1, 2]), funcs=r.choice([1, 3]), params=r.choice([3, 4]))
    g = cohgen.CohGen(seed, k, target='matlab', unsigned_char_params=False)
    mod = g.module()
    return S.Module((S.Include('lib.h'),) + mod.items)


def run_toolbox(seed, tier, nhist, acc, only_history=None):
    mod = make_model(seed)
    text = render.render(mod)
    vs = []
    try:
        tb = mlwork.Toolbox(text, 'modx')
    except Exception as e:
        return [({'history': -1}, {'what': 'MATLAB generation failed on a coherent model',
                                   'error': '%s: %s' % (type(e).__name__, str(e)[:200]), 'text': text[:2500]})]
    P = mlsim.Plan(mod, tb)
    if P.problems:
        acc.count('plan_problems(decided by C06)', len(P.problems))
    tmp = tempfile.mkdtemp(prefix='verif_c11_')
    try:
        lib = cxxlib.generate(mod, eigen=True, sequential_enums=True)
        exe, err = mlsim.build(tmp, tb, lib)
        if exe is None:
            errs = [l for l in err.split('\n') if ' error' in l][:4]
            return [({'history': -1}, {'what': 'generated gateway does not compile against matlab.h and a conforming library',
                                       'errors': errs, 'text': text[:2500]})]
        acc.count('gateways_built')
        env = dict(os.environ)
        env['ASAN_OPTIONS'] = 'detect_leaks=1:halt_on_error=1:abort_on_error=0'
        env['UBSAN_OPTIONS'] = 'halt_on_error=1:print_stacktrace=1'
        for h in range(nhist):
            if only_history is not None and h != only_history:
                continue
            hseed = seed * 1000 + h
            r = random.Random(hseed)
            H = mlsim.History(P, hseed, r.choice([30, 60, 120, 200]))
            ops = H.generate()
            if not ops:
                continue
            sp = os.path.join(tmp, 'h%d.txt' % h)
            open(sp, 'w').write(H.script())
            try:
                p = subprocess.run([exe, sp], stdout=subprocess.PIPE, stderr=subprocess.PIPE, timeout=600, env=env)
            except subprocess.TimeoutExpired:
                acc.inconclusive.append('simulator exceeded the 600 s watchdog')
                continue
            out, err = p.stdout.decode('utf8', 'replace'), p.stderr.decode('utf8', 'replace')
            ndel = sum(1 for o in ops if o['kind'] == 'DEL')
            nback = sum(1 for o in ops for x in o.get('outs', []) if x.get('kind') == 'class')
            acc.case(hashlib.sha256((text + str(hseed)).encode()).hexdigest()[:16], ndel > 0 and nback > 0)
            if 'ERROR: AddressSanitizer' in err or 'runtime error:' in err or 'ERROR: LeakSanitizer' in err:
                acc.count('sanitizer_reports')
                vs.append(({'history': h}, {'what': 'sanitizer report while driving the generated gateway', 'report': err[-1800:],
                                            'text': text[:2500], 'script_tail': H.script()[-600:]}))
                continue
            if p.returncode != 0 or 'ARRAYS' not in out:
                vs.append(({'history': h}, {'what': 'session simulator aborted', 'rc': p.returncode, 'stderr': err[-800:],
                                            'stdout_tail': out[-400:], 'text': text[:2500]}))
                continue
            blocks, trailer = mlsim.parse_log(out)
            for v in mlsim.check_log(P, ops, blocks, trailer, acc)[:3]:
                v['text'] = text[:2500]
                vs.append(({'history': h}, v))
            if h == 0 and seed % 4 == 0:
                acc.sample({'case_seed': seed, 'interface': text[:600], 'script_head': H.script().split('\n')[-12:],
                            'log_head': out.split('\n')[:12]})
            if len(vs) > 6:
                break
    finally:
        shutil.rmtree(tmp, ignore_errors=True)
    return vs


def worker(ctx):
    acc = ctx.acc
    for i in ctx.my_cases():
        seed = ctx.case_seed(i)
        for extra, v in run_toolbox(seed, ctx.tier, ctx.plan['histories'], acc)[:4]:
            c = {'case_seed': seed, 'tier': ctx.tier}
            c.update(extra)
            acc.violation(c, v)


def replay(case, ctx):
    nh = 300 if case['tier'] == 'thorough' else 40
    h = case.get('history', -1)
    return [v for _, v in run_toolbox(case['case_seed'], case['tier'], nh, ctx.acc, None if h < 0 else h)]
