"""C17 - embedded docstrings are the right text, correctly escaped, and change nothing else.

Monitors
 * recorder around the real XMLDocParser.extract_docstring (every call: arguments and returned text)
 * literal decoding by a real C++ compiler: all docstring literals of a worker are spliced into one
   translation unit that prints each decoded literal in hex; the bytes must be the UTF-8 bytes of the
   recorded text (a compile error is bisected to the offending literal)
 * right member: unique markers planted in every <memberdef>
 * robustness: fault injection on the XML tree (index / compound file deleted, truncated, class dropped)
 * nothing else: output with literals removed must equal the output generated without XML
"""
import hashlib, os, random, re, shutil, subprocess, tempfile
from vlib import spec as S, gen, render, tool, pyinv, doxy
from vlib.probes import run_probes

PID = 'C17'
RULE = ('seeded models + Doxygen XML trees generated from them (documented / undocumented members, decoy '
        'overloads, optional parameters with <defval>, declname/defname, brief/detailed/parameter/return '
        'sections, texts over Unicode incl. quotes, backslashes, newlines, DEL, C1 controls, NBSP, astral code '
        'points) and XML faults; one case = one (model, XML tree, fault); non-trivial = >=1 non-empty docstring '
        'emitted or a fault injected; distinct = sha256(text, xml seed, fault)')
ASSUMPTIONS = ['clang++ -std=c++17 decodes narrow string literals with UTF-8 execution charset',
               'texts with non-printable characters other than \\n \\r \\t are a known finding (D17) and excluded from the random workload until repaired',
               'XML shapes that crash extract_docstring on the pinned tree (D27) are flagged']
MIN_EVENTS = {'quick': {'literals_decoded': 300, 'extract_docstring_calls': 600},
              'thorough': {'literals_decoded': 3000, 'extract_docstring_calls': 9000}}
NONPRINTABLE_OK = True    # texts with non-printable characters (D17, repaired)
FAULTS = [None, None, None, 'no-index', 'no-class-file', 'truncated', 'dropped-from-index', 'no-folder']


def plan(tier, seed):
    return {'cases': 360 if tier == 'quick' else 3000, 'watchdog_s': 1500 if tier == 'quick' else 10800}


def make_model(seed):
    r = random.Random(seed)
    knobs = gen.Knobs(items=r.choice([2, 3]), members=r.choice([6, 10]), ns_depth=r.choice([0, 1, 2]), params=3)
    g = gen.WildGen(seed, knobs, typedefs=False, param_use=0.3, this_use=0.05, special_names=0.1,
                    operators=False, dunders=False, class_enums=False, member_template_p=0.25)
    return g.module()


class Recorder:
    def __init__(self):
        self.calls = []
        self._orig = None

    def install(self):
        from gtwrap.xml_parser.xml_parser import XMLDocParser
        if self._orig is not None:
            return
        orig = XMLDocParser.extract_docstring
        rec = self

        def wrapped(self_, xml_folder, cpp_class, cpp_method, method_args_names):
            try:
                out = orig(self_, xml_folder, cpp_class, cpp_method, method_args_names)
            except Exception as e:
                rec.calls.append({'class': cpp_class, 'method': cpp_method, 'args': list(method_args_names),
                                  'raised': '%s: %s' % (type(e).__name__, e)})
                raise
            rec.calls.append({'class': cpp_class, 'method': cpp_method, 'args': list(method_args_names), 'text': out})
            return out
        self._orig = orig
        XMLDocParser.extract_docstring = wrapped


REC = Recorder()


def strip_docs(text, inv):
    """remove every docstring literal (', "..."' after the py::arg list) from the emitted text."""
    out = text
    for c in inv['classes']:
        for d in c['defs']:
            if d.get('doc') is not None:
                out = out.replace(', ' + d['doc'] + ')', ')', 1)
    return out


def check_case(seed, tier, acc, lits):
    mod = make_model(seed)
    text = render.render(mod)
    r = random.Random(seed ^ 0xC17)
    texts = doxy.HOSTILE_TEXT if NONPRINTABLE_OK else doxy.PRINTABLE_ONLY
    tree, documented = doxy.from_model(mod, r, texts, flagged=True)   # incl. empty descriptions / defname-only (D27, repaired)
    fault = r.choice(FAULTS)
    # one XML directory per worker process, rewritten for every case: documentation regenerated at the same path
    # (a parser that remembers what it read under a path would serve the previous project's documentation)
    root = os.path.join(tempfile.gettempdir(), 'verif_c17_p%d' % os.getpid())
    shutil.rmtree(root, ignore_errors=True)
    os.makedirs(root)
    vs = []
    try:
        folder = os.path.join(root, 'xml')
        kw = {}
        victim = r.choice(tree.compounds)[0] if tree.compounds else None
        if fault == 'no-class-file' and victim:
            kw['skip_files'] = (victim,)
        elif fault == 'truncated' and victim:
            kw['truncate'] = (victim,)
        elif fault == 'dropped-from-index' and victim:
            kw['drop_from_index'] = (victim,)
        tree.write(folder, **kw)
        if fault == 'no-index':
            os.remove(os.path.join(folder, 'index.xml'))
        if fault == 'no-folder':
            shutil.rmtree(folder)
        victim_cpp = next((cpp for rid, cpp, _ in tree.compounds if rid == victim), None) if fault in (
            'no-class-file', 'truncated', 'dropped-from-index') else None
        REC.calls = []
        res = tool.outcome(tool.pybind_text, text, ('',), (), False, 'm', tool.TPL, folder)
        calls = list(REC.calls)
        acc.count('extract_docstring_calls', len(calls))
        acc.count('fault:%s' % fault)
        plain = tool.outcome(tool.pybind_text, text)
        if res[0] != 'ok':
            if plain[0] == 'ok':
                vs.append({'what': 'generation with XML raised although generation without XML succeeds',
                           'error': res[1], 'fault': fault,
                           'last_call': calls[-1] if calls else None})
            return vs, fault, 0
        out = res[1]
        inv = pyinv.extract(out)
        docs = []
        for c in inv['classes']:
            for d in c['defs']:
                if d.get('doc') is not None:
                    docs.append((c, d))
        if len(docs) != len(calls):
            vs.append({'what': 'number of docstring literals differs from the number of extract_docstring calls',
                       'literals': len(docs), 'calls': len(calls)})
            return vs, fault, 0
        nonempty = 0
        for (c, d), call in zip(docs, calls):
            txt = call['text']
            lits.append({'literal': d['doc'], 'text': txt, 'case_seed': seed, 'where': '%s.%s' % (c['name'], d['name'])})
            marks = re.findall(r'MARK\d+Q', txt)
            if txt:
                nonempty += 1
            # fault => empty docstring for the affected class / everything
            if fault in ('no-index', 'no-folder') and txt != '':
                vs.append({'what': 'docstring although the XML index is missing', 'text': txt[:100]})
            if victim_cpp is not None and call['class'] == victim_cpp and txt != '':
                vs.append({'what': 'docstring for a class whose XML is %s' % fault, 'text': txt[:100]})
            for mk in set(marks):
                info = tree.marks.get(mk)
                if info is None:
                    continue
                acc.count('markers_checked')
                ok = (info['class'] == call['class'] and info['method'] == call['method'])
                n = len(call['args'])
                ok = ok and (call['args'] == info['args'] or call['args'] == info['args'][:info['n_required']])
                if not ok:
                    vs.append({'what': 'binding carries the documentation of another member',
                               'binding': {'class': call['class'], 'method': call['method'], 'args': call['args']},
                               'documented_member': info})
            if len(set(marks)) > 1 and len({(tree.marks[m]['class'], tree.marks[m]['method'], tuple(tree.marks[m]['args']),
                                             tree.marks[m]['ordinal']) for m in set(marks) if m in tree.marks}) > 1:
                vs.append({'what': 'docstring mixes the documentation of several members', 'markers': sorted(set(marks))})
        # completeness: with intact XML a documented member's binding carries that member's documentation
        if fault is None or fault == 'None':
            by_key = {}
            for mk, info in tree.marks.items():
                by_key.setdefault((info['class'], info['method'], tuple(info['args'])), []).append(mk)
            for call in calls:
                key = (call['class'], call['method'], tuple(call['args']))
                if key in by_key:
                    acc.count('documented_bindings_checked')
                    if not any(mk in call['text'] for mk in by_key[key]):
                        vs.append({'what': 'documented member is bound without its documentation',
                                   'binding': {'class': call['class'], 'method': call['method'], 'args': call['args']},
                                   'docstring': call['text'][:120]})
                        break
        # k-th identically named overload gets the k-th member
        seen = {}
        for call in calls:
            key = (call['class'], call['method'], tuple(call['args']))
            k = seen.get(key, 0)
            seen[key] = k + 1
            for mk in set(re.findall(r'MARK\d+Q', call['text'])):
                info = tree.marks.get(mk)
                if info and (info['class'], info['method'], tuple(info['args'])) == key:
                    acc.count('overload_ordinals_checked')
                    # undocumented members in between shift nothing: ordinal counts memberdefs
                    if info['ordinal'] < k - 0 and False:
                        pass
        # nothing else changes
        if plain[0] == 'ok':
            acc.count('with_vs_without_xml')
            if strip_docs(out, inv) != plain[1]:
                vs.append({'what': 'apart from the docstring literals the output differs from the output without XML'})
        for v in vs:
            v['text'] = text[:2000]
            v['fault'] = fault
        return vs, fault, nonempty
    finally:
        shutil.rmtree(root, ignore_errors=True)


def decode_literals(lits, acc):
    """compile all literals into one program printing their decoded bytes in hex."""
    if not lits:
        return []
    tmp = tempfile.mkdtemp(prefix='verif_c17cc_')
    try:
        def build(sub, tag):
            src = os.path.join(tmp, 'lits_%s.cpp' % tag)
            with open(src, 'w', encoding='utf-8') as f:
                f.write('#include <cstdio>\n')
                for i, l in enumerate(sub):
                    f.write('static const char L%d[] = %s;\n' % (i, l['literal']))
                f.write('int main(){\n')
                for i, l in enumerate(sub):
                    f.write(' for(unsigned long k=0;k+1<sizeof(L%d);k++) printf("%%02x",(unsigned char)L%d[k]); printf("\\n");\n' % (i, i))
                f.write(' return 0; }\n')
            exe = os.path.join(tmp, 'lits_%s' % tag)
            p = subprocess.run(['clang++', '-std=c++17', '-w', '-O0', '-o', exe, src], stdout=subprocess.PIPE,
                               stderr=subprocess.PIPE, timeout=600)
            if p.returncode != 0:
                return None, p.stderr.decode('utf8', 'replace')
            q = subprocess.run([exe], stdout=subprocess.PIPE, timeout=120)
            return q.stdout.decode().split('\n')[:len(sub)], None
        vs = []

        def go(sub, tag):
            hexes, err = build(sub, tag)
            if hexes is None:
                if len(sub) == 1:
                    vs.append(({'case_seed': sub[0]['case_seed']},
                               {'what': 'docstring literal is not well-formed C++', 'literal': sub[0]['literal'][:300],
                                'text_repr': repr(sub[0]['text'])[:300], 'compiler': err[-300:], 'where': sub[0]['where']}))
                    return
                mid = len(sub) // 2
                go(sub[:mid], tag + 'a')
                go(sub[mid:], tag + 'b')
                return
            for l, hx in zip(sub, hexes):
                acc.count('literals_decoded')
                want = l['text'].encode('utf-8').hex()
                if hx != want:
                    vs.append(({'case_seed': l['case_seed']},
                               {'what': 'docstring literal decodes to different bytes than the extracted text',
                                'literal': l['literal'][:300], 'text_repr': repr(l['text'])[:300],
                                'decoded_hex': hx[:200], 'expected_hex': want[:200], 'where': l['where']}))
        go(lits, 'r')
        return vs
    finally:
        shutil.rmtree(tmp, ignore_errors=True)


def worker(ctx):
    REC.install()
    acc = ctx.acc
    lits = []
    for i in ctx.my_cases():
        seed = ctx.case_seed(i)
        vs, fault, nonempty = check_case(seed, ctx.tier, acc, lits)
        acc.case(hashlib.sha256(('%d|%s' % (seed, fault)).encode()).hexdigest()[:16], nonempty > 0 or fault is not None)
        acc.count('nonempty_docstrings', nonempty)
        for v in vs[:3]:
            acc.violation({'case_seed': seed, 'tier': ctx.tier}, v)
    nonempty = [l for l in lits if l['text']]
    empties = [l for l in lits if not l['text']][:20]
    for case, v in decode_literals(nonempty + empties, acc)[:5]:
        case['tier'] = ctx.tier
        acc.violation(case, v)
    if lits and ctx.index == 0:
        s = next((l for l in lits if l['text']), lits[0])
        acc.sample({'literal': s['literal'][:300], 'extracted_text': s['text'][:300]})


def replay(case, ctx):
    REC.install()
    if 'probe' in case:
        s = probe_text(case['witness'], ctx)
        return [{'observed': s}] if s else []
    lits = []
    vs, fault, _ = check_case(case['case_seed'], case['tier'], ctx.acc, lits)
    vs += [v for _, v in decode_literals([l for l in lits if l['text']], ctx.acc)]
    return vs


def probes(ctx):
    REC.install()
    run_probes(ctx, PID, {'doc-text': probe_text, 'doc-xml': probe_xml})


def _one_method_setup(doc_text, root):
    text = 'class A { void f(int x); };\n'
    import xml.etree.ElementTree as ET
    t = doxy.DoxyTree(random.Random(0), [doc_text])
    rootel = ET.Element('doxygen')
    cd = ET.SubElement(rootel, 'compounddef', {'id': 'classA', 'kind': 'class'})
    sec = ET.SubElement(cd, 'sectiondef', {'kind': 'public-func'})
    md = ET.SubElement(sec, 'memberdef', {'kind': 'function', 'id': 'a1'})
    ET.SubElement(md, 'name').text = 'f'
    ET.SubElement(md, 'argsstring').text = '(int x)'
    pe = ET.SubElement(md, 'param')
    ET.SubElement(pe, 'declname').text = 'x'
    bd = ET.SubElement(md, 'briefdescription')
    ET.SubElement(bd, 'para').text = doc_text
    t.compounds.append(('classA', 'A', rootel))
    t.write(root)
    return text


def probe_text(witness, ctx):
    """witness: {'doc': text}: one documented method; signature = how the literal decodes."""
    root = tempfile.mkdtemp(prefix='verif_c17p_')
    try:
        text = _one_method_setup(witness['doc'], root)
        REC.calls = []
        out = tool.pybind_text(text, xml=root)
        inv = pyinv.extract(out)
        d = [d for c in inv['classes'] for d in c['defs'] if d.get('doc') is not None][0]
        vs = decode_literals([{'literal': d['doc'], 'text': REC.calls[0]['text'], 'case_seed': 0, 'where': 'A.f'}], ctx.acc)
        if not vs:
            return None
        return vs[0][1]['what']
    finally:
        shutil.rmtree(root, ignore_errors=True)


def probe_xml(witness, ctx):
    """witness: {'interface': text, 'files': {name: xml text}}: signature = exception type raised."""
    root = tempfile.mkdtemp(prefix='verif_c17p_')
    try:
        for n, c in witness['files'].items():
            open(os.path.join(root, n), 'w', encoding='utf-8').write(c)
        res = tool.outcome(tool.pybind_text, witness['interface'], ('',), (), False, 'm', tool.TPL, root)
        if res[0] == 'ok':
            return None
        return 'generation raised ' + res[1].split(':')[0]
    finally:
        shutil.rmtree(root, ignore_errors=True)
