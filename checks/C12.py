"""C12 - layout and comments never change the result.

Metamorphic oracle: one model, one canonical rendering, K hostile re-layouts (any whitespace,
block and line comments with hostile bodies between any two adjacent tokens).  The projection of
the real parse tree, the bytes returned by PybindWrapper.wrap_file and the file tree written by
MatlabWrapper.wrap must be identical for all renderings.
"""
import hashlib, random
from vlib import spec as S, gen, render, project, tool
from vlib.probes import run_probes

PID = 'C12'
RULE = ('seeded random models (vlib.gen.WildGen incl. templates, typedefs, nested namespaces/template '
        'arguments) x K seeded hostile layouts (vlib.render.Layout: none/blank/blanks/tab/newline/CRLF/block '
        'comment/line comment/mixed between every adjacent token pair, comment bodies with braces, '
        'semicolons, quotes, keywords, declarations); one case = one (model, layout); non-trivial = layout '
        'contains >=1 comment and >=1 gap without whitespace; distinct = sha256 of the re-laid-out text')
ASSUMPTIONS = ['atomic lexemes are never split: default-value text, `unsigned char`, `enum class/struct`, '
               '<header> of #include, `std::` before pair (see known findings for the last one)',
               'a comment is never glued without whitespace to the end of a default value (known finding D8)']
MIN_EVENTS = {'quick': {'layouts_compared': 300, 'gaps_with_comment': 3000},
              'thorough': {'layouts_compared': 6000, 'gaps_with_comment': 60000}}


def plan(tier, seed):
    return {'cases': 110 if tier == 'quick' else 1500, 'layouts': 4 if tier == 'quick' else 8,
            'watchdog_s': 1500 if tier == 'quick' else 10800}


def make_model(seed, tier):
    r = random.Random(seed)
    knobs = gen.Knobs.quick()
    knobs.items = r.choice([2, 3, 4])
    knobs.members = r.choice([3, 5])
    knobs.ns_depth = r.choice([1, 2, 3]) if tier == 'quick' else r.choice([1, 2, 4, 6])
    knobs.type_depth = 3 if tier == 'quick' else r.choice([3, 6])
    g = gen.WildGen(seed, knobs, typedefs=True, param_use=0.3, this_use=0.08, overloads=0.2, reopen_ns=0.2)
    return g.module()


def results(text):
    """(projection | exc, pybind text | exc, matlab tree hash | exc)"""
    def proj():
        m, problems = project.project(tool.parse(text))
        return (S.to_json(m), problems)
    a = tool.outcome(proj)
    b = tool.outcome(tool.pybind_text, text)
    c = tool.outcome(lambda: tool.matlab_tree(text)[0])
    return a, b, c


def compare(base, other):
    names = ('parse result', 'pybind output', 'matlab output')
    for n, x, y in zip(names, base, other):
        if x != y:
            if x[0] == 'ok' and y[0] == 'ok' and n != 'parse result':
                xs, ys = x[1], y[1]
                if isinstance(xs, dict):
                    keys = sorted(set(xs) | set(ys))
                    k = next(k for k in keys if xs.get(k) != ys.get(k))
                    return {'what': n + ' differs', 'file': k, 'canonical': (xs.get(k) or '<absent>')[:300],
                            'relayout': (ys.get(k) or '<absent>')[:300]}
                i = next((i for i, (p, q) in enumerate(zip(xs, ys)) if p != q), min(len(xs), len(ys)))
                return {'what': n + ' differs', 'at': i, 'canonical': xs[max(0, i - 80):i + 120],
                        'relayout': ys[max(0, i - 80):i + 120]}
            return {'what': n + ' differs', 'canonical': str(x)[:400], 'relayout': str(y)[:400]}
    return None


def run_case(seed, tier, nlay, acc, only_layout=None):
    mod = make_model(seed, tier)
    toks = render.tokens(mod)
    canon = render.render(mod, 'flat')
    base = results(canon)
    out = []
    if base[0][0] != 'ok':
        out.append(({'layout': -1}, {'what': 'canonical rendering rejected', 'error': base[0][1], 'text': canon[:1500]}))
        return out
    exp = S.to_json(project.normalize(mod))
    if base[0][1][0] != exp:
        acc.count('canonical_projection_differs_from_model(decided by C01)')
    if only_layout is None or only_layout == -2:
        # layout at a file boundary (MATLAB wraps several files as one text): how a non-last file ends - with or
        # without a final newline, after a line comment, a block comment, blanks - is layout too (h1_C12_1)
        first = 'class ZzFirst0 {\n  ZzFirst0();\n};'
        ref = tool.outcome(lambda: tool.matlab_tree([first + '\n', canon])[0])
        if ref[0] == 'ok':
            for k, end in enumerate(FILE_ENDS):
                if k % 3 != seed % 3 and only_layout is None:
                    continue
                got = tool.outcome(lambda: tool.matlab_tree([first + end, canon])[0])
                acc.count('file_boundary_layouts_compared')
                if got != ref:
                    d = compare((base[0], base[1], ref), (base[0], base[1], got)) or {'what': 'matlab output differs'}
                    d['what'] = 'end of a non-last interface file changes the MATLAB output: ' + d['what']
                    d['first_file_end'] = end
                    d['text'] = canon[:2000]
                    out.append(({'layout': -2}, d))
                    break
    for j in range(nlay):
        if only_layout is not None and j != only_layout:
            continue
        lay = render.Layout(random.Random(seed * 131 + j))
        text = lay.render(toks)
        other = results(text)
        ncomment = text.count('/*') + text.count('//')
        acc.count('layouts_compared')
        acc.count('gaps_with_comment', sum(v for (pc, c), v in lay.coverage.items() if c in ('block', 'line', 'mixed')))
        acc.count('gaps_without_whitespace', sum(v for (pc, c), v in lay.coverage.items() if c == 'none'))
        for (pc, c), v in lay.coverage.items():
            acc.count('gapclass:' + c, v)
            acc.nontrivial.add('pair:' + pc + '|' + c) if False else None
        acc.case(hashlib.sha256(text.encode()).hexdigest()[:16], ncomment > 0 and any(c == 'none' for (_, c) in lay.coverage))
        acc.count('pairclasses_seen', 0)
        PAIRS.update((pc, c) for (pc, c) in lay.coverage)
        d = compare(base, other)
        if d:
            d['text'] = text[:3000]
            out.append(({'layout': j}, d))
        if j == 0 and seed % 50 == 0:
            acc.sample({'case_seed': seed, 'relayout': text[:700]})
    return out


PAIRS = set()
FILE_ENDS = ['', ' // end of file', '\n// end of file', ' /* end */', '\n\n', ' // a; class B {};', '\r\n', '\t', '\n/* x */ // y']


def worker(ctx):
    acc = ctx.acc
    for i in ctx.my_cases():
        seed = ctx.case_seed(i)
        for extra, d in run_case(seed, ctx.tier, ctx.plan['layouts'], acc)[:2]:
            c = {'case_seed': seed, 'tier': ctx.tier}
            c.update(extra)
            acc.violation(c, d)
    acc.count('distinct_tokenpair_x_gapclass_cells(per worker, summed)', len(PAIRS))


def replay(case, ctx):
    if 'probe' in case:
        s = probe_layout(case['witness'], ctx)
        return [{'observed': s}] if s else []
    nlay = 8 if case['tier'] == 'thorough' else 4
    return [d for _, d in run_case(case['case_seed'], case['tier'], nlay, ctx.acc,
                                   None if case['layout'] == -1 else case['layout'])]


def probes(ctx):
    run_probes(ctx, PID, {'two-texts': probe_layout})


def probe_layout(witness, ctx):
    """witness: {'a': text, 'b': text} differing only in layout."""
    d = compare(results(witness['a']), results(witness['b']))
    if not d:
        return None
    return d['what']
