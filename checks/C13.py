"""C13 - instantiations are independent of each other and of parameter spelling.

Metamorphic oracle over executions of the real instantiator and both generators:
  single   T={A,B,..} vs T={A}: everything generated for A is identical
  permute  list order changed: every instantiation's block identical
  repeat   second run on a fresh parse: outputs byte-identical
  rename   template parameters alpha-renamed to unused identifiers: outputs byte-identical
Blocks: instantiated-tree descriptors, pybind class/function statements, MATLAB classdef files and
gateway routines with numeric ids normalised (ids legitimately shift).
"""
import hashlib, random, re
from dataclasses import replace
from vlib import spec as S, gen, render, ref_inst, instwork, tool, pyinv, mlab

PID = 'C13'
RULE = ('seeded template-heavy base models (members share nested types such as vector<T>, pairs, templated '
        'bases) and their variants: every single-element sub-list of one template, random permutations, a '
        'repeated run, alpha-renamings to fresh identifiers incl. sub/super-strings of other identifiers; one '
        'case = one (base, variant) comparison; non-trivial = the varied template has >=2 instantiations or the '
        'renamed parameter occurs in >=1 member type; distinct = sha256 of both texts')
ASSUMPTIONS = ['MATLAB gateway ids are renumbered consistently and are normalised before comparison',
               'flagged constructs (known findings of C02) are not generated']
MIN_EVENTS = {'quick': {'variant_comparisons': 400, 'blocks_compared': 3000},
              'thorough': {'variant_comparisons': 4000, 'blocks_compared': 60000}}


def plan(tier, seed):
    return {'cases': 170 if tier == 'quick' else 1500, 'watchdog_s': 1500 if tier == 'quick' else 10800}


def make_base(seed, tier):
    r = random.Random(seed)
    knobs = gen.Knobs(items=r.choice([2, 3]), members=r.choice([4, 6]), ns_depth=r.choice([0, 1, 2]),
                      inst_len=4 if tier == 'quick' else 5, tparams=2)
    g = gen.WildGen(seed, knobs, multiline_defaults=False, param_use=0.6, this_use=0.1, class_template_p=0.8, member_template_p=0.3,
                    typedefs=False, includes=False, fwd=False, clone_templates=0.3)
    return g.module()


# ---- model surgery
def templated_paths(mod):
    out = []

    def rec(items, path):
        for i, it in enumerate(items):
            if it.k == 'Namespace':
                rec(it.items, path + (i,))
            elif it.k in ('Class', 'Func') and it.template and any(p.insts for p in it.template):
                out.append(path + (i,))
    rec(mod.items, ())
    return out


def get_at(mod, path):
    items = mod.items
    for i in path[:-1]:
        items = items[i].items
    return items[path[-1]]


def set_at(mod, path, new):
    def rec(items, path):
        items = list(items)
        if len(path) == 1:
            items[path[0]] = new
        else:
            ns = items[path[0]]
            items[path[0]] = S.Namespace(ns.name, rec(ns.items, path[1:]))
        return tuple(items)
    return S.Module(rec(mod.items, path))


def rename_params(it, mapping):
    """alpha-rename template parameters of class / func `it` (class-level parameters only)."""
    def ty(t):
        name = mapping.get(t.name, t.name) if (not t.ns and not t.args) else t.name
        ns = t.ns
        if ns and ns[0] in mapping:
            ns = (mapping[ns[0]],) + ns[1:]
        return S.T(name, ns, tuple(ty(a) for a in t.args), t.const, t.marker)

    def ret(r):
        return S.Pair(ty(r.first), ty(r.second), r.std) if r.k == 'Pair' else ty(r)

    def args(a):
        return tuple(S.Arg(ty(x.type), x.name, x.default) for x in a)
    tmpl = tuple(S.TParam(mapping.get(p.name, p.name), p.insts) for p in it.template)
    if it.k == 'Func':
        return S.Func(it.name, ret(it.ret), args(it.args), tmpl)
    mem = []
    for m in it.members:
        shadow = {p.name for p in (getattr(m, 'template', None) or ())}
        if shadow & set(mapping):
            mem.append(m)      # a member-level parameter of the same name shadows: leave untouched
            continue
        if m.k == 'Ctor':
            mem.append(S.Ctor(m.name, args(m.args), m.template))
        elif m.k == 'Method':
            mem.append(S.Method(m.name, ret(m.ret), args(m.args), m.const, m.template))
        elif m.k == 'Static':
            mem.append(S.Static(m.name, ret(m.ret), args(m.args), m.template))
        elif m.k == 'Prop':
            mem.append(S.Prop(ty(m.type), m.name, m.default))
        elif m.k == 'Op':
            mem.append(S.Op(m.op, ret(m.ret), args(m.args)))
        elif m.k == 'Dunder':
            mem.append(S.Dunder(m.name, args(m.args)))
        else:
            mem.append(m)
    base = ty(it.base) if it.base is not None else None
    return S.Class(it.name, tuple(mem), tmpl, it.virtual, base)


def all_identifiers(mod):
    return set(re.findall(r'[A-Za-z_][A-Za-z0-9_]*', render.render(mod, 'flat')))


# ---- observation
def observe(text):
    """everything the tool produces for `text`, split into comparable blocks."""
    obs = {}
    try:
        tree = tool.instantiate(text)
        obs['desc'] = ref_inst.describe_real(tree)
    except Exception as e:
        obs['desc'] = 'exc %s: %s' % (type(e).__name__, str(e)[:150])
    py = tool.outcome(tool.pybind_text, text)
    obs['pybind_raw'] = py
    if py[0] == 'ok':
        try:
            obs['pybind_blocks'] = pyinv.blocks(py[1])
        except Exception as e:
            obs['pybind_blocks'] = {('error',): str(e)}
    ml = tool.outcome(lambda: tool.matlab_tree(text)[0])
    obs['matlab_raw'] = ml
    if ml[0] == 'ok':
        files = {}
        routines = {}
        for path, content in ml[1].items():
            if path.endswith('_wrapper.cpp'):
                sp = mlab.split_cpp(content)
                for name, rid, body in sp['routines']:
                    routines.setdefault(name, []).append(re.sub(r'\s+$', '', body))
            else:
                files[path] = mlab.normalize_ids_m(content, 'm')
        obs['matlab_files'] = files
        obs['matlab_routines'] = routines
    return obs


def desc_by_name(desc):
    out = {}

    def rec(ds, path):
        for d in ds:
            if d['kind'] == 'ns':
                rec(d['content'], path + (d['name'],))
            else:
                out.setdefault((path, d['kind'], d['name']), []).append(d)
    if isinstance(desc, list):
        rec(desc, ())
    return out


def compare_blocks(a, b, names, acc, whole=False):
    """names: instantiated entity names that exist in both variants (None = all of a's)."""
    diffs = []
    da, db = desc_by_name(a['desc']), desc_by_name(b['desc'])
    if isinstance(a['desc'], str) or isinstance(b['desc'], str):
        if a['desc'] != b['desc'] and whole:
            diffs.append(('instantiation outcome', str(a['desc'])[:200], str(b['desc'])[:200]))
        return diffs
    for k in da:
        if names is not None and k[2] not in names:
            continue
        acc.count('blocks_compared')
        if k not in db:
            diffs.append(('instantiated entity missing in variant', k, None))
        elif da[k] != db[k]:
            diffs.append(('instantiated entity differs', k, ref_inst._first_field_diff(da[k][0], db[k][0])))
    if 'pybind_blocks' in a and 'pybind_blocks' in b:
        for k, v in a['pybind_blocks'].items():
            if names is not None and (k[0] not in ('class', 'classbody', 'function') or k[2] not in names):
                continue
            acc.count('blocks_compared')
            if b['pybind_blocks'].get(k) != v:
                diffs.append(('pybind block differs', k, (v[:300], (b['pybind_blocks'].get(k) or '<absent>')[:300])))
    elif a['pybind_raw'][0] != b['pybind_raw'][0] and whole:
        diffs.append(('pybind outcome differs', a['pybind_raw'][1][:200], b['pybind_raw'][1][:200]))
    if 'matlab_files' in a and 'matlab_files' in b:
        for path, v in a['matlab_files'].items():
            stem = path.rsplit('/', 1)[-1][:-2]
            if names is not None and stem not in names:
                continue
            acc.count('blocks_compared')
            if b['matlab_files'].get(path) != v:
                diffs.append(('matlab file differs', path, None))
        for name, bodies in a['matlab_routines'].items():
            if names is not None and not any(re.search(r'(^|[a-z0-9_])%s(_|$)' % re.escape(n), name) or name == n
                                             for n in names):
                continue
            acc.count('blocks_compared')
            if b['matlab_routines'].get(name) != bodies:
                diffs.append(('matlab routine differs', name, None))
    elif a['matlab_raw'][0] != b['matlab_raw'][0] and whole:
        diffs.append(('matlab outcome differs', a['matlab_raw'][1][:200], b['matlab_raw'][1][:200]))
    if whole:
        if a['pybind_raw'] != b['pybind_raw']:
            diffs.append(('pybind output not byte-identical', None, None))
        if a['matlab_raw'] != b['matlab_raw']:
            diffs.append(('matlab output not byte-identical', None, None))
    return diffs


def variants(mod, seed, tier):
    """yield (kind, variant model, names to compare or None for whole-output comparison)"""
    r = random.Random(seed ^ 0xC13)
    yield ('repeat', mod, None)
    paths = templated_paths(mod)
    if not paths:
        return
    r.shuffle(paths)
    idents = all_identifiers(mod)
    for path in paths[:2]:
        it = get_at(mod, path)
        # --- single: keep one element of one parameter's list
        cand = [i for i, p in enumerate(it.template) if p.insts and len(p.insts) >= 2]
        if cand:
            pi = r.choice(cand)
            keep = r.choice(it.template[pi].insts)
            tmpl = tuple(S.TParam(p.name, (keep,) if i == pi else p.insts) for i, p in enumerate(it.template))
            v = set_at(mod, path, replace(it, template=tmpl))
            names = set()
            if all(p.insts for p in tmpl):
                import itertools
                for combo in itertools.product(*[p.insts for p in tmpl]):
                    names.add(it.name + ref_inst.inst_suffix(combo))
            yield ('single', v, names)
            # --- permute
            perm = list(it.template[pi].insts)
            r.shuffle(perm)
            tmpl = tuple(S.TParam(p.name, tuple(perm) if i == pi else p.insts) for i, p in enumerate(it.template))
            names = set()
            if all(p.insts for p in tmpl):
                import itertools
                for combo in itertools.product(*[p.insts for p in tmpl]):
                    names.add(it.name + ref_inst.inst_suffix(combo))
            yield ('permute', set_at(mod, path, replace(it, template=tmpl)), names)
        # --- rename
        old = r.choice(it.template).name
        others = [p.name for p in it.template if p.name != old]
        pool = ['Q_' + old, old + 'Zz', 'FRESH', 'X9y', old.lower() + '_t', 'Tq', 'ZZ' + old + 'ZZ',
                # single letters, prefixes / extensions of the other parameters and of the class name, type-like words
                'T', 'U', 'V', 'W', 'E', 'This1', 'Scalar', 'value_type', it.name[:1], it.name + 'T']
        pool += [o[:1] for o in others] + [o + 'x' for o in others] + [o[:-1] for o in others if len(o) > 1]
        pool = [x for x in dict.fromkeys(pool) if x and x not in idents and x != old and re.match(r'^[A-Za-z_]\w*$', x)]
        new = r.choice(pool) if pool else None
        if new:
            yield ('rename', set_at(mod, path, rename_params(it, {old: new})), None)


def run_case(seed, tier, acc, only=None):
    mod = make_base(seed, tier)
    text = render.render(mod)
    base = observe(text)
    out = []
    for vi, (kind, vmod, names) in enumerate(variants(mod, seed, tier)):
        if only is not None and vi != only:
            continue
        vtext = render.render(vmod)
        vobs = observe(vtext)
        acc.count('variant_comparisons')
        acc.count('variant:' + kind)
        whole = names is None
        if kind in ('single', 'permute'):
            diffs = compare_blocks(vobs, base, names, acc) if kind == 'single' else \
                compare_blocks(base, vobs, names, acc)
        else:
            diffs = compare_blocks(base, vobs, None, acc, whole=True)
        acc.case(hashlib.sha256((text + '|' + vtext).encode()).hexdigest()[:16],
                 kind != 'repeat' or bool(templated_paths(mod)))
        if diffs:
            out.append((vi, {'what': 'variant %s changes the result for an unchanged instantiation' % kind,
                             'diff': repr(diffs[0])[:1200], 'base': text[:2500], 'variant': vtext[:2500]}))
        if seed % 40 == 0 and kind == 'rename':
            acc.sample({'variant': kind, 'base': text[:500], 'variant_text': vtext[:500]})
    return out


def worker(ctx):
    acc = ctx.acc
    for i in ctx.my_cases():
        seed = ctx.case_seed(i)
        for vi, d in run_case(seed, ctx.tier, acc)[:2]:
            acc.violation({'case_seed': seed, 'tier': ctx.tier, 'variant': vi}, d)


def replay(case, ctx):
    return [d for _, d in run_case(case['case_seed'], case['tier'], ctx.acc, case.get('variant'))]
