"""C09 - generated pybind11 code compiles against any conforming C++ library.

Monitors
 * the compiler: every emitted translation unit of the coherent workload is compiled unedited
   (clang++ -std=c++17 -fsyntax-only, pre-compiled pybind11 header) against two machine-generated
   libraries declaring the interface's entities as written: (1) the instrumented library with inline
   definitions, (2) a declaration-only variant with additional differently named members, free
   functions and namespaces;
 * cheap text monitors on every generated unit, also of the wild (uncompilable) workload: no template
   parameter of the model in type position, lambda parameter count == py::arg count, regular shape
   (bracket balance), no duplicated namespace qualifier;
 * a linked subset: main file + additional file compiled, linked and imported (C16 link clause).
"""
import hashlib, os, random, re, subprocess, sys
from vlib import spec as S, gen, cohgen, render, tool, pyinv, cxxlib, build, ref_inst
from vlib.probes import run_probes

PID = 'C09'
RULE = ('(a) seeded coherent models (vlib.cohgen: resolvable types, classes/templates/enums/inheritance/'
        'operators/defaults with quotes and brackets/namespaced functions and variables, keyword member names) '
        'x option sets, each emitted unit compiled against 2 library variants; (b) seeded wild models for the '
        'text monitors; one case = one translation unit; non-trivial = unit has >=1 class with members; '
        'distinct = sha256 of the unit')
ASSUMPTIONS = ['"any conforming library" is approximated by two generated variants',
               'the module template is a user input owned by the harness (cxx/pyb/module.tpl) with stubs for RedirectCout / serialize / BOOST_CLASS_EXPORT',
               'Eigen is not installed: Eigen-typed interfaces are not part of the compiled workload',
               'flagged constructs (D8 comment glued to a default, D36 non-const print, D43, D44) are excluded while open']
MIN_EVENTS = {'quick': {'units_compiled': 100, 'text_units_scanned': 200},
              'thorough': {'units_compiled': 2500, 'text_units_scanned': 4000}}


def plan(tier, seed):
    return {'cases': 64 if tier == 'quick' else 1400, 'wild': 240 if tier == 'quick' else 4000,
            'linked': 4 if tier == 'quick' else 48, 'watchdog_s': 1800 if tier == 'quick' else 10800}


def make_case(seed, tier):
    r = random.Random(seed)
    k = cohgen.Knobs(classes=r.choice([2, 3, 5]), members=r.choice([4, 6, 9]), ns_depth=r.choice([0, 1, 2]),
                     namespaces=r.choice([1, 2]))
    g = cohgen.CohGen(seed, k, target='pybind', special_names=0.15)
    mod = g.module()
    paths = [()]
    for path, it in S.walk_items(mod.items):
        if it.k == 'Namespace':
            paths.append(path + (it.name,))
    top = r.choice(paths) if r.random() < 0.3 else ()
    ser = r.random() < 0.4
    if r.random() < 0.5:
        mod = S.Module(mod.items + directed_fragment(r, seed))
    return mod, {'top': list(top), 'ignore': [], 'ser': ser}


def directed_fragment(r, seed):
    """constructs the property text names explicitly, mixed into the random model: a serializable class template
    with two parameters instantiated through a typedef with `unsigned char` (comma and blank in the C++ spelling),
    nested template arguments, defaults with brackets and quotes."""
    n = 'dir%d' % (seed % 1000)
    T, U = S.T('T'), S.T('U')
    cls = S.Class('Ser' + n, (
        S.Ctor('Ser' + n, ()),
        S.Method('serialize', S.VOID, ()),
        S.Method('get', T, (S.Arg(S.T('vector', ('std',), (S.T('vector', ('std',), (S.T('double'),)),), True, '&'), 'rows'),
                            S.Arg(U, 'u'), S.Arg(S.T('string'), 'label', r.choice(['"a(b)[c]{d}"', '"q\\"uote"', '"x, y"']))), True),
        S.Method('vec', S.T('vector', ('std',), (T,)), (S.Arg(S.T('vector', ('std',), (U,), True, '&'), 'us'),), True),
    ), (S.TParam('T', None), S.TParam('U', None)))
    a1 = r.choice([S.T('unsigned char'), S.T('char'), S.T('double')])
    a2 = r.choice([S.T('double'), S.T('unsigned char'), S.T('size_t')])
    return (S.Namespace(n, (cls, S.Typedef(S.T('Ser' + n, (n,), (a1, a2)), 'Alias' + n.capitalize()))),)


def text_monitors(out, mod, acc, includes=False):
    """-> list of problems found in one emitted unit."""
    probs = []
    try:
        inv = pyinv.extract(out)
    except pyinv.ExtractError as e:
        return ['emitted unit is not in the regular shape: %s' % str(e)[:200]]
    params = set()
    for _, it in S.walk_items(mod.items):
        if it.k in ('Class', 'Func') and it.template:
            params |= {p.name for p in it.template}
        if it.k == 'Class':
            for m in it.members:
                if getattr(m, 'template', None):
                    params |= {p.name for p in m.template}
    params |= {'This'}
    concrete = set(re.findall(r'[A-Za-z_]\w*', ' '.join(
        ref_inst.cpp_typename(i) for _, it in S.walk_items(mod.items) if it.k in ('Class', 'Func') and it.template
        for p in it.template for i in (p.insts or ()))))

    # identifiers that the *source* spells as foreign names in a scope where they are no parameter (a near miss such
    # as `TT` next to a parameter `T`, while another template of the module has a parameter called TT) are legitimate
    legit = set()

    def note(t, scope):
        if not (not t.ns and not t.args and t.name in scope):
            legit.add(t.name)
        for i, n in enumerate(t.ns):
            if not (i == 0 and n in scope) and n != 'This':
                legit.add(n)
        for a in t.args:
            note(a, scope)

    def note_ret(r, scope):
        if r is None:
            return
        if r.k == 'Pair':
            note(r.first, scope)
            note(r.second, scope)
        else:
            note(r, scope)
    for _, it in S.walk_items(mod.items):
        if it.k == 'Func':
            sc = {p.name for p in (it.template or ())}
            note_ret(it.ret, sc)
            for a in it.args:
                note(a.type, sc)
        elif it.k == 'Class':
            csc = {p.name for p in (it.template or ())} | {'This'}
            if it.base is not None:
                note(it.base, csc)
            for m in it.members:
                sc = csc | {p.name for p in (getattr(m, 'template', None) or ())}
                note_ret(getattr(m, 'ret', None), sc)
                for a in getattr(m, 'args', ()):
                    note(a.type, sc)
                if m.k == 'Prop':
                    note(m.type, sc)
    concrete |= legit

    def types_of(d):
        ts = []
        if d['kind'] == 'init':
            ts += d['types']
        for t, _ in d.get('params', []):
            ts.append(t)
        return ts
    for c in inv['classes']:
        acc.count('bindings_scanned', len(c['defs']))
        for t in [c['cpp']] + ([c['base']] if c['base'] else []):
            for ident in re.findall(r'[A-Za-z_]\w*', t):
                if ident in params and ident not in concrete:
                    probs.append('template parameter %s survives in class spelling %s' % (ident, t))
        for d in c['defs']:
            for t in types_of(d):
                for ident in re.findall(r'[A-Za-z_]\w*', t):
                    if ident in params and ident not in concrete:
                        probs.append('template parameter %s survives in type %s of %s.%s' % (ident, t, c['name'], d.get('name', 'init')))
            if d['kind'] in ('def', 'def_static') and 'params' in d:
                nlam = len(d['params']) - (1 if d['kind'] == 'def' else 0)
                if d['name'] == '__repr__' or d['name'].startswith('__') or d['name'] in ('serialize', 'deserialize'):
                    continue
                if nlam != len(d['pyargs']):
                    probs.append('lambda of %s.%s takes %d arguments but %d py::arg given' % (c['name'], d['name'], nlam, len(d['pyargs'])))
            if d['kind'] == 'init' and len(d['types']) != len(d['pyargs']):
                probs.append('py::init of %s has %d types but %d py::arg' % (c['name'], len(d['types']), len(d['pyargs'])))
    for f in inv['functions']:
        acc.count('bindings_scanned')
        if len(f['params']) != len(f['pyargs']):
            probs.append('lambda of function %s takes %d arguments but %d py::arg given' % (f['name'], len(f['params']), len(f['pyargs'])))
        for t, _ in f['params']:
            for ident in re.findall(r'[A-Za-z_]\w*', t):
                if ident in params and ident not in concrete:
                    probs.append('template parameter %s survives in type %s of function %s' % (ident, t, f['name']))
        call = f.get('call')
        if call:
            q = call['callee'].split('<')[0].split('::')
            if any(a == b and a for a, b in zip(q, q[1:])):
                probs.append('duplicated namespace qualifier in callee %s' % call['callee'])
    # every header the interface names is included by the unit (the entities it declares live there), in order
    try:
        if not includes:
            raise LookupError('coherent units are built with the harness\' own preamble')
        from vlib import ref_pybind
        want = [h for h in ref_pybind.expected(mod, (), [], False)['includes']]
        got = [i.strip().strip('"<>') for i in inv['includes'] if 'boost/serialization' not in i]
        acc.count('include_lists_compared')
        if got != want:
            probs.append('includes of the unit %r differ from the includes of the interface %r' % (got[:8], want[:8]))
    except LookupError:
        pass
    except Exception as e:
        acc.count('include_reference_unavailable')
    if inv['other']:
        probs.append('unrecognised statement: %s' % inv['other'][0][:120])
    return probs


def first_errors(err):
    return [l for l in err.split('\n') if ' error' in l][:3]


def worker(ctx):
    acc = ctx.acc
    b = build.PybindBuilder()
    try:
        tpl = b.template()
        for i in ctx.my_cases():
            seed = ctx.case_seed(i)
            mod, opts = make_case(seed, ctx.tier)
            text = render.render(mod)
            res = tool.outcome(tool.pybind_text, text, ('',) + tuple(opts['top']), opts['ignore'], opts['ser'], 'm', tpl)
            if res[0] != 'ok':
                acc.violation({'kind': 'coh', 'case_seed': seed, 'tier': ctx.tier},
                              {'what': 'generation failed for an accepted interface file', 'error': res[1], 'text': text[:2500]})
                continue
            out = res[1]
            acc.case(hashlib.sha256(out.encode()).hexdigest()[:16], any(it.k == 'Class' and it.members for _, it in S.walk_items(mod.items)))
            for variant, lib in (('definitions', cxxlib.generate(mod)),
                                 ('declarations+extras', cxxlib.generate(mod, decl_only=True, extras=True))):
                d = b.workdir()
                ok, err, _ = b.compile(d, {'m.cpp': out}, lib, syntax_only=True)
                acc.count('units_compiled')
                acc.count('variant:' + variant)
                if not ok:
                    in_lib = all('lib.h' in e or 'pch.h' in e for e in first_errors(err)) and first_errors(err)
                    acc.violation({'kind': 'coh', 'case_seed': seed, 'tier': ctx.tier, 'variant': variant},
                                  {'what': 'emitted translation unit does not compile against a conforming library (%s)' % variant,
                                   'errors': first_errors(err), 'errors_only_in_harness_library': bool(in_lib),
                                   'text': text[:3000]})
                    break
            for p in text_monitors(out, mod, acc)[:2]:
                acc.violation({'kind': 'coh', 'case_seed': seed, 'tier': ctx.tier}, {'what': p, 'text': text[:2500]})
            acc.count('text_units_scanned')
            if i < 1:
                acc.sample({'case_seed': seed, 'options': opts, 'interface': text[:800], 'unit_bytes': len(out)})
        # ---- text monitors on the wild workload
        for i in ctx.my_cases(ctx.plan['wild']):
            seed = ctx.case_seed(20000 + i)
            r = random.Random(seed)
            g = gen.WildGen(seed, gen.Knobs(items=3, members=6, ns_depth=2), typedefs=True, typedef_same_ns=True,
                            param_use=0.4, this_use=0.1, special_names=0.1, class_template_p=0.5, serialize_p=0.15)
            mod = g.module()
            text = render.render(mod)
            res = tool.outcome(tool.pybind_text, text, ('',), (), r.random() < 0.3)
            if res[0] != 'ok':
                acc.count('wild_generation_failed(decided elsewhere)')
                continue
            acc.count('text_units_scanned')
            acc.case(hashlib.sha256(res[1].encode()).hexdigest()[:16], True)
            for p in text_monitors(res[1], mod, acc, includes=True)[:2]:
                acc.violation({'kind': 'wild', 'case_seed': seed, 'tier': ctx.tier}, {'what': p, 'text': text[:2500]})
        # ---- linked subset: main + additional file -> one importable module
        for i in ctx.my_cases(ctx.plan['linked']):
            seed = ctx.case_seed(40000 + i)
            v = linked_case(seed, b, acc)
            if v:
                acc.violation({'kind': 'linked', 'case_seed': seed, 'tier': ctx.tier}, v)
    finally:
        b.close()


def linked_case(seed, b, acc):
    r = random.Random(seed)
    k = cohgen.Knobs(classes=2, members=4, ns_depth=1, namespaces=1)
    g = cohgen.CohGen(seed, k, target='pybind', templates=False, inheritance=False)
    mod = g.module()
    items = list(mod.items)
    # split: classes of the additional file must not be referenced by the main file: use two
    # independently generated modules with disjoint names instead of a cut
    g2 = cohgen.CohGen(seed + 1, k, target='pybind', templates=False, inheritance=False)
    g2.n = 5000
    mod2 = g2.module()
    t1, t2 = render.render(mod), render.render(mod2)
    tpl = b.template()
    d = b.workdir()
    from gtwrap.pybind_wrapper import PybindWrapper
    p1, p2 = os.path.join(d, 'main.i'), os.path.join(d, 'extra_part.i')
    open(p1, 'w').write(t1)
    open(p2, 'w').write(t2)
    old = os.getcwd()
    os.chdir(d)
    try:
        w = PybindWrapper(module_name='m', top_module_namespaces=[''], ignore_classes=[], module_template=tpl)
        w.wrap([p1, p2], os.path.join(d, 'main_out.cpp'))
        PybindWrapper(module_name='m', top_module_namespaces=[''], ignore_classes=[], module_template=tpl).wrap_submodule(p2)
    except Exception as e:
        return {'what': 'multi-file generation failed', 'error': '%s: %s' % (type(e).__name__, e)}
    finally:
        os.chdir(old)
    sub = open(os.path.join(d, 'extra_part.cpp')).read()
    lib = cxxlib.generate(S.Module(mod.items + mod2.items))
    ok, err, so = b.compile(d, {'main_out.cpp': open(os.path.join(d, 'main_out.cpp')).read(), 'extra_part.cpp': sub}, lib)
    acc.count('linked_modules')
    if not ok:
        return {'what': 'main + additional file do not compile/link into one module', 'errors': first_errors(err),
                'files': [t1[:800], t2[:800]]}
    names1 = [it.name for it in mod.items if it.k == 'Class']
    names2 = [it.name for it in mod2.items if it.k == 'Class']
    code = 'import sys; sys.path.insert(0, %r); import m; missing=[n for n in %r if not hasattr(m, n)]; print("MISSING", missing)' % (d, names1 + names2)
    p = subprocess.run([sys.executable, '-c', code], stdout=subprocess.PIPE, stderr=subprocess.PIPE, timeout=300)
    o = p.stdout.decode()
    acc.count('linked_modules_imported')
    if p.returncode != 0 or 'MISSING []' not in o:
        return {'what': 'linked module does not import or lacks classes of one of the files',
                'stdout': o[-300:], 'stderr': p.stderr.decode('utf8', 'replace')[-400:]}
    return None


def replay(case, ctx):
    acc = ctx.acc
    if 'probe' in case:
        s = probe_compile(case['witness'], ctx)
        return [{'observed': s}] if s else []
    b = build.PybindBuilder()
    try:
        if case['kind'] == 'coh':
            mod, opts = make_case(case['case_seed'], case['tier'])
            text = render.render(mod)
            out = tool.pybind_text(text, ('',) + tuple(opts['top']), opts['ignore'], opts['ser'], 'm', b.template())
            vs = [{'what': p} for p in text_monitors(out, mod, acc)]
            for lib in (cxxlib.generate(mod), cxxlib.generate(mod, decl_only=True, extras=True)):
                ok, err, _ = b.compile(b.workdir(), {'m.cpp': out}, lib, syntax_only=True)
                if not ok:
                    vs.append({'what': 'does not compile', 'errors': first_errors(err)})
            return vs
        if case['kind'] == 'linked':
            v = linked_case(case['case_seed'], b, acc)
            return [v] if v else []
        return []
    finally:
        b.close()


def probes(ctx):
    run_probes(ctx, PID, {'compile-text': probe_compile})


_PB = {}


def probe_compile(witness, ctx):
    """witness: {'interface': text, 'lib': C++ declarations the interface refers to}: compile the unit emitted for
    `interface` against `lib`; signature = first compiler error category."""
    b = build.PybindBuilder()
    try:
        out = tool.pybind_text(witness['interface'], ('',), witness.get('ignore', []), witness.get('ser', False), 'm', b.template())
        lib = '#define VT_FIRST_ENUM_VALUE 11\n' + cxxlib.VT_CORE + '\n' + witness['lib'] + '\n'
        ok, err, _ = b.compile(b.workdir(), {'m.cpp': out}, lib, syntax_only=True)
        if ok:
            return None
        e = [l for l in first_errors(err) if 'm.cpp' in l]
        if not e:
            return 'harness library of the probe does not compile: ' + str(first_errors(err)[:1])[:120]
        m = re.search(r'error: (.*)$', e[0]) if e else None
        return 'does not compile: ' + (re.sub(r"'[^']*'", "'..'", m.group(1))[:80] if m else 'unknown')
    finally:
        b.close()
