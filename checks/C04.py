"""C04 - every Python binding forwards to the declared C++ entity, faithfully.

Executions of the generated programs: the emitted pybind11 unit is compiled unedited (ASan+UBSan)
against a machine-generated instrumented library that logs every call; the module is imported into
the repository's interpreter and a driver calls every binding (positional, keyword-permuted,
default-omitting, extra-argument) and compares the library's trace (entity incl. explicit template
arguments, receiver object, argument values in declared order, defaults) and the returned value with
expectations computed from the model; properties, enum values, inheritance, operators and
live-object counters are checked as well.  Any sanitizer report fails the run.
"""
import hashlib, json, os, random, re, subprocess, sys
from vlib import spec as S, cohgen, render, tool, cxxlib, build, pyplan
from vlib.probes import run_probes
from vlib.runner import VERIF

PID = 'C04'
RULE = ('seeded coherent models over the execute-universe (bool,char,unsigned char,int,size_t,double,string, '
        'std::vector<T>, enums, classes by value/const ref/ref/shared/raw pointer, templates on classes and members, '
        'inheritance, operators, properties, namespaces, keyword-named members) x top-namespace option; one case = '
        'one built module; every binding of the module is called in every call form; non-trivial = module with >=5 '
        'bindings called; distinct = sha256 of the emitted unit')
ASSUMPTIONS = ['the instrumented library (vlib/cxxlib.py) and the harness module template are trusted',
               'Eigen-typed bindings cannot be executed (no Eigen in the sandbox)',
               'leak checking inside CPython is off (detect_leaks=0); object lifetime is checked with the library live counters']
MIN_EVENTS = {'quick': {'modules_run': 20, 'calls': 900, 'results_checked': 800},
              'thorough': {'modules_run': 350, 'calls': 15000, 'results_checked': 15000}}


def plan(tier, seed):
    return {'cases': 48 if tier == 'quick' else 480, 'watchdog_s': 2400 if tier == 'quick' else 14400}


def make_case(seed, tier):
    r = random.Random(seed)
    k = cohgen.Knobs(classes=r.choice([2, 3, 4]), members=r.choice([4, 6, 8]), ns_depth=r.choice([0, 1, 2]),
                     namespaces=r.choice([1, 2]), funcs=3)
    g = cohgen.CohGen(seed, k, target='pybind', special_names=0.12, member_templates=True)
    mod = g.module()
    paths = [()]
    for path, it in S.walk_items(mod.items):
        if it.k == 'Namespace':
            paths.append(path + (it.name,))
    top = r.choice(paths) if r.random() < 0.25 else ()
    # a class inside the top namespace must not derive from one outside it (the base would be unregistered)
    for path, it in S.walk_items(mod.items):
        if it.k == 'Class' and it.base is not None and tuple(path[:len(top)]) == tuple(top) \
                and tuple(it.base.ns[:len(top)]) != tuple(top):
            top = ()
    if top:
        # a default value inside the top namespace must not be of a type declared outside it (unregistered)
        outside = {it.name for path, it in S.walk_items(mod.items)
                   if it.k in ('Enum', 'Class') and tuple(path[:len(top)]) != tuple(top)}
        for path, it in S.walk_items(mod.items):
            if tuple(path[:len(top)]) != tuple(top):
                continue
            members = it.members if it.k == 'Class' else ([it] if it.k == 'Func' else [])
            for m in members:
                for a in getattr(m, 'args', ()):
                    if a.default and set(re.findall(r'[A-Za-z_]\w*', a.default)) & outside:
                        top = ()
    return mod, list(top)


def harness_template(b, mod):
    tpl = b.template()
    helpers = pyplan.origin_helpers(mod).replace('{', '{{').replace('}', '}}')
    return tpl.replace('    m_.def("_verif_trace_{module_name}"', helpers + '\n    m_.def("_verif_trace_{module_name}"')


def run_case(seed, tier, b, acc):
    mod, top = make_case(seed, tier)
    text = render.render(mod)
    case = {'case_seed': seed, 'tier': tier}
    res = tool.outcome(tool.pybind_text, text, ('',) + tuple(top), [], False, 'm', harness_template(b, mod))
    if res[0] != 'ok':
        return [{'what': 'generation failed', 'error': res[1], 'text': text[:2500]}]
    out = res[1]
    d = b.workdir()
    ok, err, so = b.compile(d, {'m.cpp': out}, cxxlib.generate(mod, identity=True))
    if not ok:
        acc.count('module_build_failed')
        return [{'what': 'generated program cannot be built against the library that declares the interface: no binding can forward',
                 'errors': [l for l in err.split('\n') if ' error' in l][:3], 'text': text[:3000]}]
    plan_ = pyplan.build_plan(mod, top)
    json.dump(plan_, open(os.path.join(d, 'plan.json'), 'w'))
    env = dict(os.environ)
    env['LD_PRELOAD'] = build.asan_runtime()
    env['ASAN_OPTIONS'] = 'detect_leaks=0:halt_on_error=1:abort_on_error=1:allocator_may_return_null=1'
    env['UBSAN_OPTIONS'] = 'halt_on_error=1:print_stacktrace=1'
    env['PYTHONPATH'] = ''
    try:
        p = subprocess.run([sys.executable, os.path.join(VERIF, 'cxx', 'pyb', 'driver.py'), os.path.join(d, 'plan.json'), d, str(seed)],
                           stdout=subprocess.PIPE, stderr=subprocess.PIPE, timeout=900, env=env)
    except subprocess.TimeoutExpired:
        acc.inconclusive.append('driver exceeded the 900 s watchdog (case %d)' % seed)
        return []
    so_, se = p.stdout.decode('utf8', 'replace'), p.stderr.decode('utf8', 'replace')
    m = re.search(r'VERIF_RESULT (.*)$', so_, re.M)
    vs = []
    if 'ERROR: AddressSanitizer' in se or 'runtime error:' in se:
        vs.append({'what': 'sanitizer report while driving the generated module', 'report': se[-1500:]})
        acc.count('sanitizer_reports')
    if not m:
        if not vs:
            vs.append({'what': 'generated module could not be imported / driven', 'rc': p.returncode, 'stderr': se[-800:]})
        for v in vs:
            v['text'] = text[:3000]
        return vs
    R = json.loads(m.group(1))
    if 'driver_error' in R:
        acc.inconclusive.append('driver error (case %d): %s' % (seed, R['driver_error'][-600:]))
    acc.count('modules_run')
    acc.count('calls', R['calls'])
    acc.count('bindings_called', R['bindings'])
    acc.count('keyword_calls', R['kw_calls'])
    acc.count('default_omission_calls', R['default_calls'])
    acc.count('results_checked', R['checked'])
    acc.count('objects_identified', R['objects_identified'])
    acc.count('templated_member_or_function_calls', R.get('templated_calls', 0))
    acc.count('by_reference_arguments_identity_checked', R.get('identity_args', 0))
    acc.count('dunder_calls', R.get('dunder_calls', 0))
    for k, n in R['skipped'].items():
        acc.count('skipped:' + k.split(' ')[0], n)
    acc.case(hashlib.sha256(out.encode()).hexdigest()[:16], R['bindings'] >= 5)
    for v in R['violations'][:4]:
        v['text'] = text[:3000]
        v['top'] = top
        vs.append(v)
    if seed % 16 == 0:
        acc.sample({'case_seed': seed, 'top': top, 'interface': text[:700], 'driver_summary': {k: R[k] for k in ('calls', 'bindings', 'checked', 'kw_calls', 'default_calls')}})
    return vs


def worker(ctx):
    b = build.PybindBuilder(san=True)
    try:
        for i in ctx.my_cases():
            seed = ctx.case_seed(i)
            for v in run_case(seed, ctx.tier, b, ctx.acc)[:4]:
                ctx.acc.violation({'case_seed': seed, 'tier': ctx.tier}, v)
    finally:
        b.close()


def probes(ctx):
    run_probes(ctx, PID, {'import-module': probe_import})


def probe_import(witness, ctx):
    """build the module for a small interface against a hand-written conforming library and import it"""
    from vlib import project
    b = build.PybindBuilder(san=False)
    try:
        m, _ = project.project(tool.parse(witness['interface']))
        out = tool.pybind_text(witness['interface'], ('',), [], False, 'm', b.template())
        d = b.workdir()
        ok, err, so = b.compile(d, {'m.cpp': out}, cxxlib.generate(m, identity=True))
        if not ok:
            return 'does not build'
        p = subprocess.run([sys.executable, '-c', 'import sys; sys.path.insert(0, %r); import m' % d], stdout=subprocess.PIPE,
                           stderr=subprocess.PIPE, timeout=300, env=dict(os.environ, PYTHONPATH=''))
        if p.returncode == 0:
            return None
        last = p.stderr.decode('utf8', 'replace').strip().split('\n')[-1]
        return 'import fails: ' + re.sub(r"'[^']*'", "'..'", last)[:100]
    finally:
        b.close()


def replay(case, ctx):
    if 'probe' in case:
        s = probe_import(case['witness'], ctx)
        return [{'observed': s}] if s else []
    b = build.PybindBuilder(san=True)
    try:
        return run_case(case['case_seed'], case['tier'], b, ctx.acc)
    finally:
        b.close()
