"""C01 - the parse tree mirrors the source exactly.

Oracle: the generator's own model (ground truth) against the projection of the real parse
tree; namespace paths recomputed from the real parent links.
"""
import random
from vlib import spec as S, gen, render, project
from vlib.probes import run_probes

PID = 'C01'
RULE = ('seeded random interface models over the documented dialect (vlib.gen.WildGen), rendered to '
        'text, parsed by gtwrap Module.parseString and projected back; a case is non-trivial when the '
        'model has >=1 class with members or >=1 templated/qualified type at depth>=1; distinct = '
        'distinct sha256 of the rendered text')
ASSUMPTIONS = ['dialect as modelled from DOCS.md; constructs outside it are not generated',
               'flagged constructs (known findings) are exercised only by their witness probes']
MIN_EVENTS = {'quick': {'decls_compared': 500}, 'thorough': {'decls_compared': 20000}}


def plan(tier, seed):
    return {'cases': 320 if tier == 'quick' else 6000, 'watchdog_s': 1500 if tier == 'quick' else 7200}


def coverage(mod, acc):
    """construct x depth x qualifier-position table."""
    def ty(t, where, depth=0):
        acc.count('type:%s:d%d:%s%s' % (where, min(depth, 4), 'c' if t.const else '-', t.marker or '-'))
        for a in t.args:
            ty(a, where, depth + 1)

    def ret(r, where):
        if r.k == 'Pair':
            ty(r.first, where + '.pair1')
            ty(r.second, where + '.pair2')
            acc.count('pair:' + ('std' if r.std else 'plain'))
        else:
            ty(r, where)
    for path, it in S.walk_items(mod.items):
        acc.count('decl:%s:nsdepth%d' % (it.k, min(len(path), 6)))
        if it.k == 'Class':
            for m in it.members:
                acc.count('member:' + m.k)
                for a in getattr(m, 'args', ()):
                    ty(a.type, m.k + '.arg')
                    if a.default is not None:
                        acc.count('default-values')
                if hasattr(m, 'ret'):
                    ret(m.ret, m.k + '.ret')
                if m.k == 'Prop':
                    ty(m.type, 'prop')
                if m.k == 'Op':
                    acc.count('op:' + m.op)
                if getattr(m, 'template', None):
                    acc.count('member-template')
            if it.template:
                acc.count('class-template')
            if it.base is not None:
                acc.count('base:' + ('templated' if it.base.args else 'plain'))
        elif it.k == 'Func':
            ret(it.ret, 'func.ret')
            for a in it.args:
                ty(a.type, 'func.arg')


def check_model(mod, acc, case, text=None):
    import gtwrap.interface_parser as parser
    text = render.render(mod) if text is None else text
    exp = project.normalize(mod)
    try:
        tree = parser.Module.parseString(text)
    except Exception as e:  # a well-formed file must be accepted
        return {'what': 'well-formed input rejected', 'error': '%s: %s' % (type(e).__name__, str(e)[:300]),
                'text': text}
    got, problems = project.project(tree)
    acc.count('decls_compared', S.count_nodes(mod.items))
    d = project.first_diff(exp, got)
    if d:
        return {'what': 'parse tree differs from source', 'path': d[0], 'expected': d[1], 'actual': d[2],
                'text': text}
    if problems:
        return {'what': 'parent link / namespace path wrong', 'problems': problems[:5], 'text': text}
    return None


def make_case(seed, tier):
    r = random.Random(seed)
    knobs = gen.Knobs.thorough() if (tier == 'thorough' and r.random() < 0.5) else gen.Knobs.quick()
    if r.random() < 0.3:
        knobs.items, knobs.members = 3, 4
    g = gen.WildGen(seed, knobs, typedefs=r.random() < 0.5, param_use=0.2, this_use=0.05, overloads=0.25, reopen_ns=0.2, ns_namesakes=0.2, enum_namesakes=0.2)
    return g.module()


def worker(ctx):
    acc = ctx.acc
    for i in ctx.my_cases():
        seed = ctx.case_seed(i)
        mod = make_case(seed, ctx.tier)
        text = render.render(mod, 'pretty' if i % 3 else 'flat')
        case = {'gen': 'wild', 'case_seed': seed, 'tier': ctx.tier, 'style': 'pretty' if i % 3 else 'flat'}
        v = check_model(mod, acc, case, text)
        nontrivial = any(it.k == 'Class' and it.members for _, it in S.walk_items(mod.items))
        acc.case(ctx_hash(text), nontrivial)
        coverage(mod, acc)
        if i < 3:
            acc.sample({'case_seed': seed, 'text': text[:1200]})
        if v:
            acc.violation(case, v)


def ctx_hash(text):
    import hashlib
    return hashlib.sha256(text.encode()).hexdigest()[:16]


def replay(case, ctx):
    mod = make_case(case['case_seed'], case['tier'])
    v = check_model(mod, ctx.acc, case, render.render(mod, case['style']))
    return [v] if v else []


def probes(ctx):
    run_probes(ctx, PID, {'parse-projection': probe_parse})


def probe_parse(witness, ctx):
    """witness: {'text':..., 'model': json model}; returns the observed difference signature."""
    import gtwrap.interface_parser as parser
    mod = S.from_json(witness['model'])
    v = check_model(mod, ctx.acc, {}, witness.get('text'))
    if not v:
        return None
    return '%s @%s' % (v['what'], v.get('path', ''))
