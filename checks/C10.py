"""C10 - the MATLAB toolbox contains exactly the declared classes, functions and enums.

Oracle: expected file tree and classdef structure computed from the model (vlib.ref_matlab.Expect) vs
the files actually written by the real MatlabWrapper.wrap (directory walk + sys.addaudithook write log)
and their parsed content (vlib.mlab): classdef base, pointer property, constructor, delete, one function
per distinct method / static name, get/set per property, enumerators numbered 0..n-1 in declared order;
in the MEX source one collector typedef + variable + clean-up block per class, an RTTI entry per virtual
class, exactly one MEX source.
"""
import hashlib, os, random, re, shutil, tempfile
from vlib import spec as S, gen, cohgen, render, tool, mlab, mlwork, ref_matlab, monitors
from vlib.probes import run_probes

PID = 'C10'
RULE = ('seeded coherent and wild models (namespaces to depth 3/6, classes / enums / functions at every depth, class-scoped '
        'enums, overloaded functions, templated classes and functions, typedefs) x ignore lists (namespaced classes) x '
        'serialization flag; one case = one toolbox; non-trivial = toolbox with >=2 classes and >=1 namespace; distinct = '
        'sha256(text, options)')
ASSUMPTIONS = ['class-scoped enums of classes at namespace depth >= 2 (D25) and global-scope ignore entries (D14) are excluded while open',
               ]
MIN_EVENTS = {'quick': {'files_compared': 3000, 'classdefs_checked': 800}, 'thorough': {'files_compared': 60000, 'classdefs_checked': 16000}}


def plan(tier, seed):
    return {'cases': 400 if tier == 'quick' else 8000, 'watchdog_s': 1500 if tier == 'quick' else 10800}


def make_case(seed, tier):
    r = random.Random(seed)
    deep = 6 if tier == 'thorough' else 3
    if r.random() < 0.6:
        k = cohgen.Knobs(classes=r.choice([2, 4]), members=r.choice([3, 6]), ns_depth=r.choice([0, 1, 2, deep]),
                         namespaces=r.choice([1, 2]), funcs=r.choice([1, 3]))
        mod = cohgen.CohGen(seed, k, target='matlab', serialize_p=0.2).module()
        kind = 'coherent'
    else:
        knobs = gen.Knobs(items=r.choice([3, 5]), members=r.choice([4, 8]), ns_depth=r.choice([1, 2, deep]), inst_len=3)
        mod = gen.WildGen(seed, knobs, multiline_defaults=False, typedefs=True, typedef_same_ns=True, param_use=0.3, this_use=0.05,
                          class_template_p=0.3, operators=False, dunders=False, includes=True, special_names=0.15,
                          class_enums=True, enum_namesakes=0.3, ns_namesakes=0.25).module()
        kind = 'wild'
    cls = []
    for path, it in S.walk_items(mod.items):
        if it.k == 'Class' and not it.template and not any(m.k == 'Enum' for m in it.members):
            cls.append('::'.join(path + (it.name,)))
    ignore = r.sample(cls, min(len(cls), r.choice([1, 2]))) if (cls and r.random() < 0.3) else []
    return mod, {'ser': r.random() < 0.3, 'ignore': ignore, 'kind': kind}


def d25_flagged(mod):
    for path, it in S.walk_items(mod.items):
        if it.k == 'Class' and len(path) >= 2 and any(m.k == 'Enum' for m in it.members):
            return True
    return False


def check(mod, opts, acc, text):
    exp = ref_matlab.Expect(mod, 'modx', opts['ignore'], opts['ser'])
    root = tempfile.mkdtemp(prefix='verif_c10_')
    vs = []
    try:
        with monitors.FS as fs:
            tb = mlwork.Toolbox(text, 'modx', opts['ignore'], opts['ser'])
        got = set(tb.raw)
        want = set(exp.files)
        acc.count('files_compared', len(want))
        if got != want:
            vs.append({'what': 'set of generated files differs from the declared artefacts',
                       'missing': sorted(want - got)[:6], 'unexpected': sorted(got - want)[:6]})
        if len(tb.cpp_files) != 1:
            vs.append({'what': 'not exactly one MEX source', 'files': tb.cpp_files})
        # audit: files opened for writing are exactly the files found (no write elsewhere)
        wr = set(fs.creates())
        stray = [w for w in wr if '/verif_ml_' not in w]
        if stray:
            vs.append({'what': 'generator wrote outside the output directory', 'paths': stray[:4]})
        acc.count('audit_write_events', len(wr))
        for path, d in exp.files.items():
            if path not in tb.m:
                continue
            p = tb.m[path]
            if d['kind'] == 'enum':
                acc.count('enums_checked')
                if p['kind'] != 'enum' or p['name'] != d['name'] or p['values'] != [(v, i) for i, v in enumerate(d['values'])]:
                    vs.append({'what': 'enumeration classdef differs (names / numbering 0..n-1 in declared order)', 'file': path,
                               'expected': d['values'], 'actual': p.get('values')})
            elif d['kind'] == 'function':
                if p['kind'] != 'function' or p['name'] != d['name']:
                    vs.append({'what': 'function file does not define the declared function', 'file': path})
                else:
                    n_exp = sum(len(ref_matlab.arities(f.args)) for f, _ in d['overloads'])
                    if len(p['overloads']) != n_exp:
                        vs.append({'what': 'function file offers a different number of overload branches', 'file': path,
                                   'expected': n_exp, 'actual': len(p['overloads'])})
            elif d['kind'] == 'class':
                acc.count('classdefs_checked')
                vs += check_classdef(path, d, p)
                if d['serialize']:
                    # the serialization support refers to the class by its package path (D20, repaired)
                    mname = path[:-2].replace('+', '').replace('/', '.')
                    used = set(re.findall(r"([\w.]*)\.string_deserialize\(sobj\)", tb.raw[path]))
                    acc.count('serialize_names_checked')
                    if used != {mname}:
                        vs.append({'what': 'loadobj calls string_deserialize of another name than the class', 'file': path,
                                   'expected': mname, 'actual': sorted(used)})
                    handles = set(re.findall(r'Shared output\(new %s\(\)\);\s*in_archive >> \*output;\s*out\[0\] = wrap_shared_ptr\(output,"([^"]*)"'
                                             % re.escape(d['cpp']), tb.raw[tb.cpp_files[0]])) if tb.cpp_files else set()
                    if handles != {mname}:
                        vs.append({'what': 'deserialization wraps the object as another MATLAB class', 'file': path,
                                   'expected': mname, 'actual': sorted(handles)})
        # MEX source
        if tb.cpp:
            cnames = [d['collector'] for d in exp.classes]
            got_c = [b for a, b in tb.cpp['collectors']]
            if sorted(got_c) != sorted(cnames):
                vs.append({'what': 'collector typedefs differ from the declared classes', 'missing': sorted(set(cnames) - set(got_c))[:4],
                           'unexpected': sorted(set(got_c) - set(cnames))[:4], 'duplicated': sorted({c for c in got_c if got_c.count(c) > 1})[:4]})
            got_v = [b for a, b in tb.cpp['collector_vars']]
            if sorted(got_v) != sorted(cnames):
                vs.append({'what': 'collector variables differ from the declared classes'})
            got_d = [b for a, b in tb.cpp['delete_blocks']]
            if sorted(got_d) != sorted(cnames):
                vs.append({'what': 'clean-up blocks (unload) differ from the collectors', 'missing': sorted(set(cnames) - set(got_d))[:4]})
            virt = sorted(d['collector'] for d in exp.classes if d['virtual'])
            got_r = sorted(b for a, b in tb.cpp['rtti'])
            if got_r != virt:
                vs.append({'what': 'RTTI registrations differ from the virtual classes', 'missing': sorted(set(virt) - set(got_r))[:4],
                           'unexpected': sorted(set(got_r) - set(virt))[:4]})
    finally:
        shutil.rmtree(root, ignore_errors=True)
    return vs


def check_classdef(path, d, p):
    vs = []
    if p['kind'] != 'class' or p['name'] != d['name']:
        return [{'what': 'classdef file does not define the declared class', 'file': path}]
    base = (d['base'] or 'handle').replace('::', '.')
    if ref_matlab.nows(p['base']) != ref_matlab.nows(base):
        vs.append({'what': 'classdef names a different base', 'file': path, 'expected': base, 'actual': p['base']})
    props = [x.split('=')[0].strip() for x in p['properties']]
    if not props or props[0] != d['ptr']:
        vs.append({'what': 'pointer property missing or misnamed', 'file': path, 'expected': d['ptr'], 'actual': props[:1]})
    if props[1:] != [m.name for m in d['props']]:
        vs.append({'what': 'declared properties differ', 'file': path, 'expected': [m.name for m in d['props']], 'actual': props[1:]})
    if not p['ctor'] or not p['ctor']['pointer']:
        vs.append({'what': 'constructor block missing', 'file': path})
    else:
        n_exp = sum(len(ref_matlab.arities(m.args)) for m, _ in d['ctors'])
        if len(p['ctor']['overloads']) != n_exp:
            vs.append({'what': 'constructor offers a different number of overload branches', 'file': path,
                       'expected': n_exp, 'actual': len(p['ctor']['overloads'])})
        if p['ctor']['ptr_assign'] != d['ptr']:
            vs.append({'what': 'constructor stores the pointer in another property', 'file': path, 'actual': p['ctor']['ptr_assign']})
        if bool(p['ctor']['pointer']['virtual']) != bool(d['virtual']):
            vs.append({'what': 'virtual up-cast path presence differs from the declaration', 'file': path})
        if (p['ctor']['base_chain'] is not None) != (d['base'] is not None):
            vs.append({'what': 'base-class constructor chaining differs from the declaration', 'file': path})
    if not p['delete']:
        vs.append({'what': 'delete function missing', 'file': path})
    exp_methods = set(d['methods']) | ({'string_serialize'} if d['serialize'] else set())
    if set(p['methods']) != exp_methods:
        vs.append({'what': 'method functions differ from the distinct declared method names', 'file': path,
                   'missing': sorted(exp_methods - set(p['methods']))[:4], 'unexpected': sorted(set(p['methods']) - exp_methods)[:4]})
    exp_statics = set(d['statics']) | ({'string_deserialize'} if d['serialize'] else set())
    if set(p['statics']) != exp_statics:
        vs.append({'what': 'static functions differ from the distinct declared static names', 'file': path,
                   'missing': sorted(exp_statics - set(p['statics']))[:4], 'unexpected': sorted(set(p['statics']) - exp_statics)[:4]})
    acc_names = set(p['accessors'])
    if acc_names != {m.name for m in d['props']} or any(not a.get('get') or not a.get('set') for a in p['accessors'].values()):
        vs.append({'what': 'get/set accessors differ from the declared properties', 'file': path})
    return vs


def run_case(seed, tier, acc):
    mod, opts = make_case(seed, tier)
    # (class-scoped enums of classes in nested namespaces are part of the workload: D25 repaired)
    text = render.render(mod)
    try:
        vs = check(mod, opts, acc, text)
    except Exception as e:
        if isinstance(e, OSError) and getattr(e, 'errno', None) == 36:
            acc.count('file_name_too_long(operating system limit)')       # deep instantiation names
            vs = []
        else:
            # the generator resolves no names: every well-formed module must yield a toolbox (D52, repaired)
            vs = [{'what': 'MATLAB generation failed on a well-formed module (%s)' % opts['kind'],
                   'error': '%s: %s' % (type(e).__name__, str(e)[:200])}]
    for v in vs:
        v['text'] = text[:2500]
        v['options'] = opts
    return vs, text, opts


def worker(ctx):
    acc = ctx.acc
    for i in ctx.my_cases():
        seed = ctx.case_seed(i)
        vs, text, opts = run_case(seed, ctx.tier, acc)
        if vs is None:
            continue
        acc.case(hashlib.sha256((text + repr(opts)).encode()).hexdigest()[:16], text.count('class ') >= 2 and 'namespace' in text)
        acc.count('kind:' + opts['kind'])
        acc.count('opt:ser%d:ignore%d' % (opts['ser'], len(opts['ignore'])))
        if i < 1:
            acc.sample({'case_seed': seed, 'options': opts, 'text': text[:800]})
        for v in vs[:3]:
            acc.violation({'case_seed': seed, 'tier': ctx.tier}, v)


def replay(case, ctx):
    if 'probe' in case:
        s = probe(case['witness'], ctx)
        return [{'observed': s}] if s else []
    return run_case(case['case_seed'], case['tier'], ctx.acc)[0] or []


def probes(ctx):
    run_probes(ctx, PID, {'toolbox-files': probe, 'toolbox-serialize-name': probe_serialize_name})


def probe_serialize_name(witness, ctx):
    """names used by the serialization support of a class must be valid MATLAB names (pkg.Class or Class)"""
    tb = mlwork.Toolbox(witness['text'], 'modx', (), True)
    for path, content in tb.raw.items():
        if path.endswith('.m'):
            m = re.search(r"[ '=](\.[A-Za-z_]\w*\.string_deserialize)", content)
            if m:
                return 'invalid MATLAB name ' + m.group(1)
    return None


def probe(witness, ctx):
    mod = S.from_json(witness['model'])
    opts = witness.get('options', {'ser': False, 'ignore': [], 'kind': 'coherent'})
    try:
        vs = check(mod, opts, ctx.acc, render.render(mod))
    except Exception as e:
        return 'exception %s: %s' % (type(e).__name__, str(e)[:100])
    if not vs:
        return None
    v = vs[0]
    return ('%s %s %s' % (v['what'], v.get('missing', ''), v.get('unexpected', '')))[:300]
