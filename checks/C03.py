"""C03 - the generated Python module exposes exactly the declared API.

Oracle: expected binding inventory computed from the generator model and the options
(vlib.ref_pybind) vs the inventory extracted from the text returned by the real
PybindWrapper.wrap_file (vlib.pyinv); statement-order scan for "each submodule is created once,
before anything is placed in it".
"""
import hashlib, random
from collections import Counter
from vlib import spec as S, gen, render, ref_inst, ref_pybind, pyinv, tool
from vlib.probes import run_probes

PID = 'C03'
RULE = ('seeded random models x option sets (top namespace of depth 0-3 among existing and non-existing '
        'paths, ignore lists drawn from existing class spellings incl. template instantiations and typedefs '
        'plus non-existing names, serialization flag, member names from the Python keyword / ipython / print / '
        'serialize lists); one case = one (model, options); non-trivial = >=1 class binding expected and '
        '(top namespace != global or ignore list non-empty or a special member name present); distinct = '
        'sha256(text+options)')
ASSUMPTIONS = ['binding order between entities is not constrained (multiset comparison)',
               'typedef instantiations are declared in the namespace of their template (clean dialect)',
               'instance-variable names of classes with enums do not clash (known finding D44)']
MIN_EVENTS = {'quick': {'bindings_compared': 3000}, 'thorough': {'bindings_compared': 40000}}


def plan(tier, seed):
    return {'cases': 540 if tier == 'quick' else 6000, 'watchdog_s': 1500 if tier == 'quick' else 7200}


def make_case(seed, tier):
    r = random.Random(seed)
    knobs = gen.Knobs.quick()
    knobs.items = r.choice([2, 3, 4, 5])
    knobs.members = r.choice([3, 5, 8])
    knobs.ns_depth = r.choice([1, 2, 3]) if tier == 'quick' else r.choice([1, 2, 3, 5])
    g = gen.WildGen(seed, knobs, typedefs=True, param_use=0.3, this_use=0.08, special_names=0.25,
                    typedef_same_ns=True, class_enum_ignore_safe=True, reopen_ns=0.35, overloads=0.2, enum_namesakes=0.25, ns_namesakes=0.3, serialize_p=0.15)
    mod = g.module()
    # options
    paths = [()]
    for path, it in S.walk_items(mod.items):
        if it.k == 'Namespace':
            paths.append(path + (it.name,))
    x = r.random()
    if x < 0.4:
        top = ()
    elif x < 0.85:
        top = r.choice(paths)
    else:
        base = r.choice(paths)
        top = base[:r.randint(0, len(base))] + ('nonexistent',)
    cpps = []

    def coll(descs):
        for d in descs:
            if d['kind'] == 'ns':
                coll(d['content'])
            elif d['kind'] in ('class', 'decl'):
                cpps.append((d['cpp'], bool(d.get('enums'))))
    coll(ref_inst.expand_module(mod))
    ignore = []
    if r.random() < 0.5 and cpps:
        cand = [c for c, has_enum in cpps]      # incl. classes with class-scoped enums (D34, repaired)
        ignore = r.sample(cand, min(len(cand), r.choice([1, 1, 2, 3])))
    if r.random() < 0.3:
        ignore.append(r.choice(['NoSuchClass', 'ns::Nope', 'a::B<int>', '']))
    plain = [c for c, _ in cpps if '<' not in c and c not in ignore]
    if plain and r.random() < 0.3:
        # near-miss entries: the simple name of a class that is NOT ignored, under another (absent) namespace, or
        # stripped of its own namespace - an ignore entry names one C++ class, not every class of that name (h1_C03_1)
        c = r.choice(plain)
        last = c.split('::')[-1]
        near = r.choice(['zz_nowhere::' + last, 'zz_a::zz_b::' + last] + ([last] if '::' in c else ['::' + last]))
        if near not in [x for x, _ in cpps]:
            ignore.append(near)
    ser = r.random() < 0.5
    return mod, {'top': list(top), 'ignore': ignore, 'ser': ser}


def order_scan(inv, acc):
    """each submodule variable defined exactly once and before any use; class instance variables too."""
    problems = []
    defined = {'m_'}
    for ev in inv['events']:
        if ev[0] == 'submodule':
            _, var, parent, name = ev
            if var in defined:
                problems.append('submodule variable %s defined twice' % var)
            if parent not in defined:
                problems.append('submodule %s created from undefined parent %s' % (var, parent))
            defined.add(var)
        elif ev[0] in ('class', 'attr', 'function'):
            if ev[1] not in defined:
                problems.append('%s %s placed in undefined module variable %s' % (ev[0], ev[2], ev[1]))
        elif ev[0] == 'enum':
            pass
    instvars = {c['instance'] for c in inv['classes'] if c['instance']}
    for e in inv['enums']:
        if e['scopevar'] not in defined and e['scopevar'] not in instvars:
            problems.append('enum %s placed in undefined scope %s' % (e['name'], e['scopevar']))
    acc.count('submodule_events', sum(1 for ev in inv['events'] if ev[0] == 'submodule'))
    return problems


def check(mod, opts, acc):
    text = render.render(mod)
    top = tuple(opts['top'])
    try:
        out = tool.pybind_text(text, top=('',) + top, ignore=opts['ignore'], ser=opts['ser'])
    except Exception as e:
        return [{'what': 'pybind generation of a well-formed module failed',
                 'error': '%s: %s' % (type(e).__name__, str(e)[:300]), 'text': text, 'options': opts}]
    try:
        inv = pyinv.extract(out)
    except pyinv.ExtractError as e:
        return [{'what': 'emitted module is not in the regular shape (extractor)', 'error': str(e)[:300],
                 'text': text, 'options': opts, 'output': out[:3000]}]
    vs = []
    if inv['other']:
        vs.append({'what': 'unrecognised statement in emitted module (undeclared binding?)',
                   'statement': inv['other'][0][:300], 'text': text, 'options': opts})
    act = ref_pybind.normalize(inv)
    exp = ref_pybind.exp_norm(ref_pybind.expected(mod, top, opts['ignore'], opts['ser']))
    a, e = ref_pybind.inventory_view(act), ref_pybind.inventory_view(exp)
    acc.count('bindings_compared', sum(e.values()))
    for k in ('class', 'init', 'def', 'def_static', 'property', 'operator', 'dunder', 'enum', 'enumerator',
              'attr', 'function', 'submodule', 'serialize', 'pickle'):
        acc.count('expected:' + k, sum(v for kk, v in e.items() if kk[0] == k))
    if a != e:
        missing = list((e - a).items())[:4]
        extra = list((a - e).items())[:4]
        vs.append({'what': 'binding inventory differs', 'missing': missing, 'extra': extra, 'text': text,
                   'options': opts})
    for p in order_scan(inv, acc)[:3]:
        vs.append({'what': p, 'text': text, 'options': opts})
    return vs


def nontrivial(mod, opts, exp_classes):
    special = any(getattr(m, 'name', '') in gen.WildGen.SPECIAL for _, it in S.walk_items(mod.items)
                  if it.k == 'Class' for m in it.members)
    return exp_classes > 0 and (bool(opts['top']) or bool(opts['ignore']) or special)


def worker(ctx):
    acc = ctx.acc
    for i in ctx.my_cases():
        seed = ctx.case_seed(i)
        mod, opts = make_case(seed, ctx.tier)
        vs = check(mod, opts, acc)
        text = render.render(mod)
        ncls = sum(1 for _, it in S.walk_items(mod.items) if it.k == 'Class')
        acc.case(hashlib.sha256((text + repr(opts)).encode()).hexdigest()[:16], nontrivial(mod, opts, ncls))
        acc.count('opt:top_depth%d' % len(opts['top']))
        acc.count('opt:ignore%d' % min(len(opts['ignore']), 3))
        acc.count('opt:ser%d' % opts['ser'])
        if i < 2:
            acc.sample({'case_seed': seed, 'options': opts, 'text': text[:1200]})
        for v in vs[:3]:
            acc.violation({'case_seed': seed, 'tier': ctx.tier}, v)


def replay(case, ctx):
    if 'probe' in case:
        s = probe(case['witness'], ctx)
        return [{'observed': s}] if s else []
    mod, opts = make_case(case['case_seed'], case['tier'])
    return check(mod, opts, ctx.acc)


def probes(ctx):
    run_probes(ctx, PID, {'pybind-inventory': probe})


def probe(witness, ctx):
    mod = S.from_json(witness['model'])
    vs = check(mod, witness.get('options', {'top': [], 'ignore': [], 'ser': False}), ctx.acc)
    if not vs:
        return None
    v = vs[0]
    return ('%s %s %s' % (v['what'], v.get('missing', ''), v.get('extra', '')))[:300]
