"""C15 - ignoring or removing a class affects that class only.

Metamorphic oracle over executions of both generators: for a class X of a model M compare
   A = wrap(M)     B = wrap(M, ignore=[X])     C = wrap(M with X's declaration deleted)
 * B contains no artefact of X and every other entity's block equals A's (MATLAB ids normalised)
 * B equals C (byte-identical for pybind; identical after id normalisation for MATLAB)
 * deleting an unrelated declaration (function, enum, variable, other class) leaves all other blocks unchanged
Ignore keys follow each generator's convention (pybind: C++ spelling ns::Tm<int>; MATLAB: ns::TmInt).
"""
import hashlib, random, re, itertools
from dataclasses import replace
from vlib import spec as S, gen, render, ref_inst, tool, pyinv, mlab
from vlib.probes import run_probes

PID = 'C15'
RULE = ('seeded models x choice of a class X (global / namespaced / nested, plain / one instantiation of a '
        'template list / typedef instantiation / virtual, first / middle / last) x generator; plus deletion of an '
        'unrelated declaration; one case = one (model, X, generator) triple; non-trivial = model has >=2 other '
        'entities whose blocks are compared; distinct = sha256(text, X, generator)')
ASSUMPTIONS = ['nothing else in the generated models refers to X (type names are unique)',
               'classes with class-scoped enums are not chosen for pybind (known finding D34)',
               'global-scope classes are not chosen for MATLAB unless D14 is repaired (known finding)']
MIN_EVENTS = {'quick': {'triples': 250, 'blocks_compared': 2500}, 'thorough': {'triples': 5000, 'blocks_compared': 50000}}
MATLAB_GLOBAL_OK = True   # ignoring a global-scope class (D14, repaired)


def plan(tier, seed):
    return {'cases': 150 if tier == 'quick' else 2200, 'watchdog_s': 1500 if tier == 'quick' else 10800}


def make_model(seed, tier):
    r = random.Random(seed)
    OPT['coherent'] = False
    if r.random() < 0.3:
        # a coherent universe: classes that derive from, take, return and hold each other.  Ignoring one of them must
        # still leave every other block untouched (ignore == delete is not compared here: deleting a class that
        # others refer to is another input, not an equivalent one)
        from vlib import cohgen
        k = cohgen.Knobs(classes=r.choice([2, 4]), members=r.choice([3, 6]), ns_depth=r.choice([0, 1, 2]),
                         namespaces=r.choice([1, 2]), funcs=r.choice([1, 3]))
        OPT['coherent'] = True
        return cohgen.CohGen(seed, k, target='matlab', serialize_p=0.2).module()
    knobs = gen.Knobs(items=r.choice([3, 4, 5]), members=r.choice([2, 4]), ns_depth=r.choice([1, 2, 3]), inst_len=3)
    g = gen.WildGen(seed, knobs, multiline_defaults=False, typedefs=True, typedef_same_ns=True, param_use=0.3, this_use=0.05,
                    class_template_p=0.4, includes=False, enum_namesakes=0.25, serialize_p=0.3, ns_namesakes=0.25)
    mod = g.module()
    if r.random() < 0.4:
        mod = add_namesake(mod, r)
    if r.random() < 0.4:
        mod = add_prefix_sibling(mod, r)
    return mod


def add_namesake(mod, r):
    """a second class with the name of an existing one, declared in another namespace (ignoring one must not
    touch its namesake)"""
    classes = [(p, it) for p, it in S.walk_items(mod.items) if it.k == 'Class' and not it.template]
    if not classes:
        return mod
    path, c = r.choice(classes)
    # the namesake is non-virtual and has no class-scoped enums: up-cast routines are named by the bare class name and
    # the pybind instance variable of a class with enums is its lower-cased bare name (two such classes clash: D44)
    twin = S.Class(c.name, tuple(m for m in c.members if m.k in ('Method', 'Static', 'Prop'))[:3], None, False, None)
    if c.virtual or any(m.k == 'Enum' for m in c.members):
        return mod
    if path:
        return S.Module(mod.items + (twin,)) if not any(it.k == 'Class' and it.name == c.name for it in mod.items) else mod
    return S.Module(mod.items + (S.Namespace('twin%d' % r.randint(0, 99), (twin,)),))


def add_prefix_sibling(mod, r):
    """next to a plain class `Pose` a class `PoseGraph` (and `Pos`): the name of one is a prefix of the other's"""
    def rec(items):
        items = list(items)
        plain = [i for i, it in enumerate(items) if it.k == 'Class' and not it.template and not it.virtual and
                 not any(m.k == 'Enum' for m in it.members)]
        if plain and r.random() < 0.7:
            i = r.choice(plain)
            c = items[i]
            for nm in (c.name + r.choice(['Graph', '2', 'Ext', 'd']), c.name[:-1] if len(c.name) > 2 else c.name + 'x'):
                if not any(getattr(it, 'name', None) == nm for it in items):
                    mem = tuple(S.Ctor(nm, m.args, m.template) if m.k == 'Ctor' else m for m in c.members
                                if m.k in ('Ctor', 'Method', 'Static', 'Prop'))[:3]
                    items.insert(r.randint(0, len(items)), S.Class(nm, mem, None, False, None))
            return tuple(items), True
        for j, it in enumerate(items):
            if it.k == 'Namespace':
                sub, done = rec(it.items)
                if done:
                    items[j] = S.Namespace(it.name, sub)
                    return tuple(items), True
        return tuple(items), False
    return S.Module(rec(mod.items)[0])


def candidates(mod):
    """[(path of item indices, kind, extra)] kind: 'class' (plain), 'inst' (extra=(param idx.., tuple)), 'typedef'"""
    out = []

    def rec(items, ipath, nspath):
        for i, it in enumerate(items):
            if it.k == 'Namespace':
                rec(it.items, ipath + (i,), nspath + (it.name,))
            elif it.k == 'Class':
                has_enum = any(m.k == 'Enum' for m in it.members)
                if not it.template:
                    out.append({'ipath': ipath + (i,), 'kind': 'class', 'ns': nspath, 'name': it.name,
                                'cpp': '::'.join(nspath + (it.name,)), 'has_enum': has_enum, 'pos': i, 'n': len(items)})
                elif all(p.insts for p in it.template):
                    combos = list(itertools.product(*[p.insts for p in it.template]))
                    for combo in combos:
                        out.append({'ipath': ipath + (i,), 'kind': 'inst', 'ns': nspath, 'combo': combo,
                                    'ncombos': len(combos), 'name': it.name + ref_inst.inst_suffix(combo),
                                    'cpp': ref_inst.cpp_typename(S.T(it.name, nspath, combo)),
                                    'has_enum': has_enum, 'pos': i, 'n': len(items)})
            elif it.k == 'Typedef':
                tg = ref_inst.find_template(mod, it.type.ns, it.type.name)
                if len(tg) == 1 and tg[0].k in ('Class', 'Fwd'):
                    has_enum = tg[0].k == 'Class' and any(m.k == 'Enum' for m in tg[0].members)
                    cpp = ref_inst.cpp_typename(it.type) if tg[0].k == 'Class' else \
                        '::'.join(it.type.ns + (it.type.name,)) + '<' + ','.join('::'.join(a.ns + (a.name,)) for a in it.type.args) + '>'
                    out.append({'ipath': ipath + (i,), 'kind': 'typedef', 'ns': nspath, 'name': it.name, 'cpp': cpp,
                                'has_enum': has_enum, 'pos': i, 'n': len(items), 'decl_only': tg[0].k == 'Fwd'})
    rec(mod.items, (), ())
    return out


def delete_item(mod, ipath):
    def rec(items, path):
        items = list(items)
        if len(path) == 1:
            del items[path[0]]
        else:
            ns = items[path[0]]
            items[path[0]] = S.Namespace(ns.name, rec(ns.items, path[1:]))
        return tuple(items)
    return S.Module(rec(mod.items, ipath))


def replace_item(mod, ipath, new):
    def rec(items, path):
        items = list(items)
        if len(path) == 1:
            items[path[0]] = new
        else:
            ns = items[path[0]]
            items[path[0]] = S.Namespace(ns.name, rec(ns.items, path[1:]))
        return tuple(items)
    return S.Module(rec(mod.items, ipath))


def get_item(mod, ipath):
    items = mod.items
    for i in ipath[:-1]:
        items = items[i].items
    return items[ipath[-1]]


def delete_X(mod, x):
    if x['kind'] in ('class', 'typedef'):
        return delete_item(mod, x['ipath'])
    it = get_item(mod, x['ipath'])
    if x['ncombos'] == 1 and any(t.k == 'Typedef' and t.type.name == it.name for _, t in S.walk_items(mod.items)):
        return None    # the template is also a typedef target: its declaration cannot be deleted
    # remove the combo: only possible as a list edit when exactly one parameter list shrinks
    if x['ncombos'] == 1:
        return delete_item(mod, x['ipath'])
    if len(it.template) == 1:
        p = it.template[0]
        newl = tuple(t for t in p.insts if t != x['combo'][0])
        return replace_item(mod, x['ipath'], replace(it, template=(S.TParam(p.name, newl),)))
    return None    # a single combination of a multi-parameter product cannot be deleted in the source


# ------------------------------------------------------------------ observations
OPT = {'ser': False}     # serialization switch of the current case (both generators)


def py_obs(text, ignore):
    out = tool.pybind_text(text, ignore=ignore, ser=OPT['ser'])
    return out, pyinv.blocks(out)


def exports(text):
    """the serialization export section of a pybind module: BOOST_CLASS_EXPORT lines and their typedefs"""
    return [l.replace(' ', '') for l in text.split('\n') if l.startswith('BOOST_CLASS_EXPORT') or
            (l.startswith('typedef ') and l.rstrip().endswith(';'))]


def ml_obs(text, ignore):
    tree, _ = tool.matlab_tree(text, ignore=ignore, ser=OPT['ser'])
    files, routines, pre = {}, [], ''
    for path, content in tree.items():
        if path.endswith('_wrapper.cpp'):
            sp = mlab.split_cpp(content)
            routines = [(name, re.sub(r'\s+$', '', body)) for name, rid, body in sp['routines']]
            pre = sp['pre']
            ncases = len(mlab.cases(sp['mex']))
            files['<cases>'] = str(ncases)
        else:
            files[path] = mlab.normalize_ids_m(content, 'm')
    return files, routines, pre


def x_routine(name, x):
    prefix = ''.join(x['ns']) + x['name']
    return name == prefix or name.startswith(prefix + '_') or name == x['name'] + '_upcastFromVoid'


def check_triple(mod, x, which, acc):
    text = render.render(mod)
    deleted = None if OPT.get('coherent') else delete_X(mod, x)
    vs = []
    if which == 'pybind':
        try:
            A_text, A = py_obs(text, [])
        except Exception:
            acc.count('pybind_base_run_failed(decided elsewhere)')
            return []
        B_text, B = py_obs(text, [x['cpp']])
        # artefacts of X: its class statement(s) (a typedef and a listed instantiation may denote the same C++
        # class: the ignore key is the C++ spelling), the chained body of a class with enums, and its enums
        same_cpp = {k[2] for k, v in A.items() if k[0] == 'class' and v.replace(' ', '').startswith(
            'py::class_<' + x['cpp'].replace(' ', '') + ',')}
        same_cpp.add(x['name'])
        xkeys = [k for k in A if ((k[0] in ('class', 'classbody') and k[2] in same_cpp) or
                                  (k[0] == 'enum' and k[1] in {n.lower() for n in same_cpp})) and k not in B]
        if not xkeys:
            vs.append({'what': 'ignored class still bound (pybind)', 'class': x['cpp']})
        for k in A:
            if k in xkeys:
                continue
            acc.count('blocks_compared')
            if B.get(k) != A[k]:
                vs.append({'what': 'ignoring %s changed another block (pybind)' % x['cpp'], 'block': repr(k),
                           'before': A[k][:300], 'after': (B.get(k) or '<absent>')[:300]})
                break
        extra = [k for k in B if k not in A]
        if extra:
            vs.append({'what': 'ignoring a class added blocks', 'blocks': repr(extra[:3])})
        # serialization exports: those of X go, the others stay
        xc = x['cpp'].replace(' ', '')
        xnames = {xc, re.sub('[,:<> ]', '', xc)}
        ea, eb = exports(A_text), exports(B_text)
        acc.count('export_lines_compared', len(ea))
        if eb != [l for l in ea if not any(l == 'BOOST_CLASS_EXPORT(%s)' % n or l == 'typedef%s%s;' % (xc, n) for n in xnames)]:
            vs.append({'what': 'serialization exports with the class ignored are not the exports without it minus its own',
                       'without_ignore': ea[:6], 'with_ignore': eb[:6], 'class': x['cpp']})
        if deleted is not None and len(same_cpp) == 1:
            C_text = tool.pybind_text(render.render(deleted), ser=OPT['ser'])
            acc.count('ignore_vs_delete')
            if C_text != B_text:
                i = next((i for i, (p, q) in enumerate(zip(B_text, C_text)) if p != q), min(len(B_text), len(C_text)))
                vs.append({'what': 'ignore differs from deleting the declaration (pybind)', 'class': x['cpp'],
                           'ignored': B_text[max(0, i - 100):i + 200], 'deleted': C_text[max(0, i - 100):i + 200]})
    else:
        key = '::'.join(x['ns'] + (x['name'],))
        try:
            A = ml_obs(text, [])
        except Exception:
            acc.count('matlab_base_run_failed(decided elsewhere)')
            return []
        B = ml_obs(text, [key])
        pkg = '/'.join('+' + n for n in x['ns'])
        xfile = (pkg + '/' if pkg else '') + x['name'] + '.m'
        if xfile in B[0]:
            vs.append({'what': 'ignored class still has a classdef file (matlab)', 'file': xfile})
        if xfile not in A[0]:
            acc.count('x_file_absent_in_A')
        xpkg = (pkg + '/' if pkg else '') + '+' + x['name'] + '/'    # class-scoped enums of X
        for f, v in A[0].items():
            if f in (xfile, '<cases>') or ('+' + x['name']) in f.split('/'):
                continue
            acc.count('blocks_compared')
            if B[0].get(f) != v:
                vs.append({'what': 'ignoring %s changed file %s (matlab)' % (key, f)})
                break
        left = [f for f in B[0] if ('+' + x['name']) in f.split('/')]
        if left:
            vs.append({'what': 'ignored class still has enum files (matlab)', 'files': left[:3]})
        ra = [(n, b) for n, b in A[1] if not x_routine(n, x)]
        rb = B[1]
        acc.count('blocks_compared', len(ra))
        if [n for n, _ in rb if x_routine(n, x)]:
            vs.append({'what': 'ignored class still has gateway routines', 'routines': [n for n, _ in rb if x_routine(n, x)][:4]})
        elif ra != rb:
            d = next((i for i, (p, q) in enumerate(zip(ra, rb)) if p != q), min(len(ra), len(rb)))
            vs.append({'what': 'ignoring %s changed the routines of other entities (matlab)' % key,
                       'first_difference': repr((ra[d:d + 1], rb[d:d + 1]))[:600]})
        cname = ''.join(x['ns']) + x['name']
        if re.search(r'\bCollector_%s\b' % re.escape(cname), B[2]) or re.search(r'typeid\(%s\)' % re.escape(x['name']), B[2]):
            vs.append({'what': 'ignored class still has collector / RTTI entry', 'class': key})
        if deleted is not None:
            C = ml_obs(render.render(deleted), [])
            acc.count('ignore_vs_delete')
            if B[0] != C[0] or B[1] != C[1] or B[2] != C[2]:
                what = 'files' if B[0] != C[0] else ('routines' if B[1] != C[1] else 'preamble')
                vs.append({'what': 'ignore differs from deleting the declaration (matlab, %s)' % what, 'class': key})
    for v in vs:
        v['text'] = text[:2500]
        v['X'] = {k: (v2 if not isinstance(v2, tuple) else repr(v2)) for k, v2 in x.items() if k != 'combo'}
    return vs


def check_unrelated(mod, which, r, acc):
    """delete an unrelated declaration; every other block must be unchanged."""
    idx = [i for i, it in enumerate(mod.items) if it.k in ('Func', 'Enum', 'Var', 'Class', 'Fwd')]
    if len(idx) < 1 or len(mod.items) < 2:
        return []
    i = r.choice(idx)
    victim = mod.items[i]
    # templates that are typedef targets cannot be removed without breaking the typedef
    if victim.k in ('Class', 'Fwd') and any(it.k == 'Typedef' and it.type.name == victim.name
                                            for _, it in S.walk_items(mod.items)):
        return []
    small = delete_item(mod, (i,))
    ta, tb = render.render(mod), render.render(small)
    vs = []
    acc.count('unrelated_deletions')
    if which == 'pybind':
        A = pyinv.blocks(tool.pybind_text(ta, ser=OPT['ser']))
        B = pyinv.blocks(tool.pybind_text(tb, ser=OPT['ser']))
        # ordinal part of the key may shift for equal-named functions: compare by multiset of texts
        sa = sorted(v for v in A.values())
        sb = sorted(v for v in B.values())
        missing = [v for v in sb if v not in sa]
        acc.count('blocks_compared', len(sb))
        if missing:
            vs.append({'what': 'deleting an unrelated %s changed another block (pybind)' % victim.k,
                       'block': missing[0][:400], 'text': ta[:2500]})
    else:
        A = ml_obs(ta, [])
        B = ml_obs(tb, [])
        for f, v in B[0].items():
            if f == '<cases>':
                continue
            acc.count('blocks_compared')
            if A[0].get(f) != v:
                vs.append({'what': 'deleting an unrelated %s changed file %s (matlab)' % (victim.k, f), 'text': ta[:2500]})
                break
        ra = [b for _, b in A[1]]
        for n, b in B[1]:
            acc.count('blocks_compared')
            if b not in ra:
                vs.append({'what': 'deleting an unrelated %s changed routine %s (matlab)' % (victim.k, n), 'text': ta[:2500]})
                break
    return vs


def run_case(seed, tier, acc, only=None):
    mod = make_model(seed, tier)
    r = random.Random(seed ^ 0xC15)
    OPT['ser'] = random.Random(seed ^ 0x5E7).random() < 0.5
    acc.count('opt:ser%d' % OPT['ser'])
    acc.count('kind:coherent' if OPT.get('coherent') else 'kind:wild')
    cands = candidates(mod)
    out = []
    picks = []
    for which in ('pybind', 'matlab'):
        ok = [c for c in cands if True
              and not (which == 'matlab' and (not c['ns']) and not MATLAB_GLOBAL_OK)
              and not (which == 'matlab' and c.get('decl_only'))]
        r.shuffle(ok)
        for x in ok[:2]:
            picks.append((which, x))
    for j, (which, x) in enumerate(picks):
        if only is not None and j != only:
            continue
        try:
            vs = check_triple(mod, x, which, acc)
        except Exception as e:
            vs = [{'what': 'generator failed while ignoring/deleting a class (%s)' % which,
                   'error': '%s: %s' % (type(e).__name__, str(e)[:200]), 'text': render.render(mod)[:2500],
                   'X': x['cpp']}]
        acc.count('triples')
        acc.count('X:%s:%s:%s:%s' % (which, x['kind'], 'global' if not x['ns'] else 'ns%d' % len(x['ns']),
                                    'first' if x['pos'] == 0 else ('last' if x['pos'] == x['n'] - 1 else 'middle')))
        acc.case(hashlib.sha256((render.render(mod) + x['cpp'] + which).encode()).hexdigest()[:16],
                 sum(1 for _ in S.walk_items(mod.items)) >= 3)
        out += [(j, v) for v in vs[:2]]
        if seed % 60 == 0 and j == 0:
            acc.sample({'generator': which, 'X': x['cpp'], 'kind': x['kind'], 'text': render.render(mod)[:600]})
    for j, which in enumerate(('pybind', 'matlab')):
        if only is not None and 100 + j != only:
            continue
        if OPT.get('coherent'):
            continue      # in a coherent universe no declaration is unrelated to the others
        try:
            vs = check_unrelated(mod, which, r, acc)
        except Exception as e:
            vs = []
            acc.count('unrelated_generation_failed(decided elsewhere)')
        out += [(100 + j, v) for v in vs[:1]]
    return out


def worker(ctx):
    for i in ctx.my_cases():
        seed = ctx.case_seed(i)
        for j, v in run_case(seed, ctx.tier, ctx.acc)[:3]:
            ctx.acc.violation({'case_seed': seed, 'tier': ctx.tier, 'pick': j}, v)


def replay(case, ctx):
    if 'probe' in case:
        s = probe(case['witness'], ctx)
        return [{'observed': s}] if s else []
    return [v for _, v in run_case(case['case_seed'], case['tier'], ctx.acc, case.get('pick'))]


def probes(ctx):
    run_probes(ctx, PID, {'ignore-triple': probe})


def probe(witness, ctx):
    """witness: {'model': json, 'name': instantiated class name, 'generator': 'pybind'|'matlab'}"""
    mod = S.from_json(witness['model'])
    xs = [c for c in candidates(mod) if c['name'] == witness['name']]
    if not xs:
        return 'witness class not found'
    try:
        vs = check_triple(mod, xs[0], witness['generator'], ctx.acc)
    except Exception as e:
        return 'exception %s' % type(e).__name__
    return vs[0]['what'] if vs else None
