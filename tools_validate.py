#!/usr/bin/env python3
"""python3-vt tools_validate.py : validates MANIFEST.json and every evidence file against the schemas."""
import json, glob, sys, jsonschema
ok = True
def v(path, schema):
    global ok
    try:
        jsonschema.validate(json.load(open(path)), json.load(open(schema)))
        print('valid', path)
    except Exception as e:
        ok = False
        print('INVALID', path, str(e)[:300])
v('/verif/MANIFEST.json', '/root/.vp/MANIFEST.schema.json')
for p in sorted(glob.glob('/verif/evidence/*.json')):
    v(p, '/root/.vp/EVIDENCE.schema.json')
sys.exit(0 if ok else 1)
