"""Call plan for the behavioural pybind check (C04): from the model, the list of bindings the driver must
call, each with the Python name/path, the expected C++ entity (as the instrumented library logs it),
parameter categories, keyword names, defaults and return category."""
import itertools
from . import cxxlib, ref_inst, ref_pybind
from . import spec as S

SCALAR_CAT = {'bool': 'bool', 'char': 'char', 'unsigned char': 'uchar', 'int': 'int', 'size_t': 'size_t',
              'double': 'double', 'float': 'double', 'string': 'string'}


class PlanBuilder:
    def __init__(self, mod, top=()):
        self.mod = mod
        self.top = tuple(top)
        self.enums = {}      # canonical C++ spelling -> {'py': [path..., name], 'vals': [(name, value)]}
        self.classes = {}    # canonical instantiation -> {'py': path}
        self.plan = {'classes': [], 'functions': [], 'enums': [], 'attrs': []}
        self.typedefs = []
        self._index(mod.items, ())

    # ---- pass 1: enums and class instantiations
    def _pypath(self, path):
        if tuple(path[:len(self.top)]) != self.top:
            return None          # outside the top namespace: not exposed to Python
        return list(path[len(self.top):])

    def _join(self, path, *names):
        p = self._pypath(path)
        return None if p is None else p + list(names)

    def _index(self, items, path):
        for it in items:
            if it.k == 'Namespace':
                self._index(it.items, path + (it.name,))
            elif it.k == 'Enum':
                q = '::'.join(path + (it.name,))
                self.enums[q] = {'py': self._join(path, it.name), 'vals': cxxlib.enum_values(it)}
            elif it.k == 'Typedef':
                tg = ref_inst.find_template(self.mod, it.type.ns, it.type.name)
                if len(tg) == 1 and tg[0].k == 'Class':
                    this = S.T(tg[0].name, tuple(it.type.ns), tuple(it.type.args))
                    self.classes[cxxlib.canon(this)] = {'py': self._join(path, it.name)}
                    self.typedefs.append((tg[0], tuple(it.type.ns), tuple(it.type.args), it.name, path))
            elif it.k == 'Class':
                for combo in ref_inst._products(it.template):
                    this = S.T(it.name, path, tuple(combo) if it.template else ())
                    canon = cxxlib.canon(this)
                    pyname = it.name + ref_inst.inst_suffix(combo)
                    self.classes[canon] = {'py': self._join(path, pyname)}
                    for m in it.members:
                        if m.k == 'Enum':
                            self.enums[canon + '::' + m.name] = {'py': self._join(path, pyname, m.name),
                                                                 'vals': cxxlib.enum_values(m)}

    # ---- type categories
    def cat(self, t):
        """category descriptor of a concrete (substituted) type."""
        if t.args and t.name == 'vector':
            return {'cat': 'vector', 'elem': self.cat(t.args[0])}
        if not t.ns and not t.args and t.name in SCALAR_CAT:
            return {'cat': SCALAR_CAT[t.name]}
        if not t.ns and not t.args and t.name == 'void':
            return {'cat': 'void'}
        canon = cxxlib.canon(t.bare()).replace(', ', ',')
        if canon in self.enums:
            return {'cat': 'enum', 'enum': canon}
        if canon in self.classes:
            mode = {'': 'value', '&': 'ref', '*': 'shared', '@': 'raw'}[t.marker]
            return {'cat': 'object', 'class': canon, 'mode': mode, 'const': t.const}
        return {'cat': 'unknown', 'spelling': canon}

    def ret_cat(self, r):
        if r.k == 'Pair':
            return {'cat': 'pair', 'first': self.cat(r.first), 'second': self.cat(r.second)}
        return self.cat(r)

    def args(self, args, env, this):
        out = []
        for a in args:
            t = ref_inst.subst(a.type, env, this)
            out.append({'name': a.name, 'type': self.cat(t), 'default': a.default})
        return out

    # ---- pass 2
    def build(self):
        self._walk(self.mod.items, ())
        self.plan['enum_table'] = self.enums
        self.plan['class_table'] = self.classes
        return self.plan

    def _inside(self, path):
        return tuple(path[:len(self.top)]) == self.top

    def _walk(self, items, path):
        for it in items:
            if it.k == 'Namespace':
                self._walk(it.items, path + (it.name,))
                continue
            if not self._inside(path):
                continue
            if it.k == 'Enum':
                self.plan['enums'].append({'py': self._pypath(path) + [it.name], 'vals': cxxlib.enum_values(it)})
            elif it.k == 'Var':
                lib = {'double': 2.5, 'int': 17, 'bool': True}.get(it.type.name)
                val = lib
                if it.default is not None:
                    d = it.default.strip()
                    try:
                        val = {'true': True, 'false': False}.get(d, None)
                        if val is None:
                            val = float(d) if it.type.name == 'double' else int(d)
                    except ValueError:
                        val = None
                self.plan['attrs'].append({'py': self._pypath(path) + [it.name], 'value': val})
            elif it.k == 'Func':
                for combo in ref_inst._products(it.template):
                    env = {p.name: i for p, i in zip(it.template or (), combo)}
                    name = it.name + ref_inst.inst_suffix(combo)
                    if name in ref_pybind.PY_KEYWORDS + ['print']:
                        name += '_'
                    ent = '::'.join(path + (it.name,))
                    if it.template:
                        ent += '<' + ','.join(cxxlib.canon(i) for i in combo) + '>'
                    self.plan['functions'].append({'py': self._pypath(path) + [name], 'entity': ent,
                                                   'args': self.args(it.args, env, None),
                                                   'ret': self.ret_cat(ref_inst.subst_ret(it.ret, env, None))})
            elif it.k == 'Class':
                for combo in ref_inst._products(it.template):
                    self._klass(it, path, combo)
            elif it.k == 'Typedef':
                for tg, tns, targs, name, tpath in self.typedefs:
                    if name == it.name and tpath == path:
                        self._klass(tg, tns, targs, pyname=name, pypath=path)

    def _klass(self, c, path, combo, pyname=None, pypath=None):
        env = {p.name: i for p, i in zip(c.template or (), combo)}
        this = S.T(c.name, path, tuple(combo) if c.template else ())
        canon = cxxlib.canon(this)
        pyname = pyname or (c.name + ref_inst.inst_suffix(combo))
        rec = {'py': self._pypath(pypath if pypath is not None else path) + [pyname], 'class': canon, 'ctors': [], 'methods': [], 'statics': [],
               'props': [], 'ops': [], 'enums': [], 'base': None, 'virtual': c.virtual,
               'dunders': [m.name for m in c.members if m.k == 'Dunder']}
        if c.base is not None:
            b = ref_inst.subst(c.base, env, this)
            rec['base'] = cxxlib.canon(b)
        for m in c.members:
            if m.k == 'Enum':
                rec['enums'].append({'name': m.name, 'vals': cxxlib.enum_values(m)})
            elif m.k == 'Prop':
                t = ref_inst.subst(m.type, env, this)
                rec['props'].append({'name': m.name, 'type': self.cat(t), 'const': m.type.const})
            elif m.k == 'Op':
                rec['ops'].append({'op': m.op, 'unary': not m.args, 'entity': canon + '::operator' + m.op,
                                   'args': self.args(m.args, env, this),
                                   'ret': self.ret_cat(ref_inst.subst_ret(m.ret, env, this))})
            elif m.k in ('Ctor', 'Method', 'Static'):
                for mi in ref_inst._products(m.template):
                    menv = dict(env)
                    menv.update({p.name: i for p, i in zip(m.template or (), mi)})
                    targs = ('<' + ','.join(cxxlib.canon(i) for i in mi) + '>') if m.template else ''
                    if m.k == 'Ctor':
                        rec['ctors'].append({'entity': canon + '::' + c.name + targs, 'args': self.args(m.args, menv, this)})
                        continue
                    if m.name in ('serialize', 'serializable'):
                        continue
                    py = m.name + ref_inst.inst_suffix(mi)
                    if (m.name + ('<...>' if m.template else '')) in ref_pybind.IPYTHON:
                        py = '_repr_%s_' % m.name
                    if py in ref_pybind.PY_KEYWORDS:
                        py += '_'
                    e = {'py': py, 'entity': canon + '::' + m.name + targs, 'args': self.args(m.args, menv, this),
                         'ret': self.ret_cat(ref_inst.subst_ret(m.ret, menv, this)),
                         'is_print': (m.name + ref_inst.inst_suffix(mi)) == 'print'}
                    (rec['methods'] if m.k == 'Method' else rec['statics']).append(e)
        self.plan['classes'].append(rec)


def build_plan(mod, top=()):
    return PlanBuilder(mod, top).build()


def origin_helpers(mod):
    """C++ lines for the harness-owned module template: one `_verif_origin` overload per class
    instantiation (the template is a user input; these helpers let the driver identify objects)."""
    pb = PlanBuilder(mod)
    lines = []
    for canon in pb.classes:
        lines.append('    m_.def("_verif_origin", [](const %s& o){ return o.vt_origin; });' % canon.replace('string', 'std::string') if False else
                     '    m_.def("_verif_origin", [](const %s& o){ return o.vt_origin; });' % _cpp_of_canon(canon))
        lines.append('    m_.def("_verif_tag", [](const %s& o){ return o.vt_tag; });' % _cpp_of_canon(canon))
    return '\n'.join(lines)


def _cpp_of_canon(canon):
    import re
    return re.sub(r'\bstring\b', 'std::string', canon)
