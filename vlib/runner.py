"""Common runner: shards a check over worker processes, merges verdicts, writes evidence.

A check module (checks/Cxx.py) provides
    PID, TITLE, RULE (how cases are drawn / what is non-trivial), ASSUMPTIONS (list)
    plan(tier, seed)         -> dict of knobs incl. 'cases' (number of cases for the tier)
    worker(ctx)              -> None; uses ctx.acc (Acc) to record what it observed
    probes(ctx)              -> optional; witness probes of known findings (run once, worker 0)
    replay(case, ctx)        -> optional; re-run one recorded case, return list of violation dicts
    min_events               -> optional dict counter-name -> minimum (below = inconclusive)
"""
import hashlib
import importlib
import json
import os
import shutil
import subprocess
import sys
import tempfile
import time
import traceback

VERIF = os.path.dirname(os.path.dirname(os.path.abspath(__file__)))
REPO = os.environ.get('VERIF_REPO', '/repo')
NCPU = min(16, os.cpu_count() or 1)


def setup_paths():
    for p in (os.path.join(VERIF, '.deps'), VERIF, REPO):
        if p in sys.path:
            sys.path.remove(p)
        sys.path.insert(0, p)
    import gtwrap
    assert os.path.realpath(gtwrap.__file__).startswith(os.path.realpath(REPO) + os.sep), gtwrap.__file__


def ensure_deps():
    """icontract / deal next to the repo's interpreter (offline wheelhouse); idempotent."""
    deps = os.path.join(VERIF, '.deps')
    if os.path.isdir(os.path.join(deps, 'icontract')):
        return
    os.makedirs(deps, exist_ok=True)
    subprocess.run([sys.executable, '-m', 'pip', 'install', '-q', '--no-index', '--find-links',
                    '/opt/veriftools/wheels', '--target', deps, 'icontract', 'deal'],
                   stdout=subprocess.DEVNULL, stderr=subprocess.DEVNULL, timeout=300)


def h(x):
    return hashlib.sha256(json.dumps(x, sort_keys=True, default=str).encode()).hexdigest()[:16]


class Acc:
    """What one worker observed."""

    def __init__(self):
        self.evaluations = 0
        self.nontrivial = set()
        self.violations = []
        self.known = []          # (finding key, what fails)
        self.counters = {}
        self.samples = []
        self.notes = []
        self.inconclusive = []

    def count(self, name, n=1):
        self.counters[name] = self.counters.get(name, 0) + n

    def case(self, key=None, nontrivial=False):
        self.evaluations += 1
        if nontrivial and key is not None:
            self.nontrivial.add(key)

    def sample(self, s, limit=3):
        if len(self.samples) < limit:
            self.samples.append(s)

    def violation(self, case, detail):
        """case: JSON-able dict sufficient to replay; detail: what was expected/observed."""
        self.violations.append({'case': case, 'detail': detail})

    def known_finding(self, key, what):
        self.known.append((key, what))

    def dump(self):
        return {'evaluations': self.evaluations, 'nontrivial': sorted(self.nontrivial),
                'violations': self.violations[:50], 'n_violations': len(self.violations),
                'known': self.known, 'counters': self.counters, 'samples': self.samples,
                'notes': self.notes, 'inconclusive': self.inconclusive}


class Ctx:
    def __init__(self, pid, tier, seed, index, nworkers, plan):
        self.pid, self.tier, self.seed, self.index, self.nworkers, self.plan = pid, tier, seed, index, nworkers, plan
        self.acc = Acc()
        self.deadline = time.time() + plan.get('worker_budget_s', 3600)

    def my_cases(self, n=None):
        """indices of this worker's share of range(n)."""
        n = self.plan['cases'] if n is None else n
        return range(self.index, n, self.nworkers)

    def case_seed(self, i):
        return (self.seed * 1000003 + i * 7919 + 17) % (2 ** 31)


def load_known(pid=None):
    p = os.path.join(VERIF, 'known_findings.json')
    if not os.path.exists(p):
        return []
    ks = json.load(open(p))['findings']
    return [k for k in ks if (pid is None or k['property'] == pid)]


def _worker_main(pid, tier, seed, index, nworkers, out):
    setup_paths()
    mod = importlib.import_module('checks.' + pid)
    plan = mod.plan(tier, seed)
    ctx = Ctx(pid, tier, seed, index, nworkers, plan)
    try:
        if index == 0 and hasattr(mod, 'probes'):
            mod.probes(ctx)
        mod.worker(ctx)
    except Exception:
        ctx.acc.inconclusive.append('worker %d crashed: %s' % (index, traceback.format_exc()[-1500:]))
    json.dump(ctx.acc.dump(), open(out, 'w'))


def run(pid, tier, seed, replay=None):
    setup_paths()
    mod = importlib.import_module('checks.' + pid)
    t0 = time.time()
    if replay:
        rec = json.load(open(replay))
        plan = mod.plan(rec.get('tier', 'quick'), rec.get('seed', 0))
        ctx = Ctx(pid, rec.get('tier', 'quick'), rec.get('seed', 0), 0, 1, plan)
        vs = mod.replay(rec['case'], ctx)
        for v in vs:
            print('REPLAY-VIOLATION property=%s detail=%s' % (pid, json.dumps(v, default=str)[:2000]))
        if not vs:
            print('replay: no violation reproduced')
        return 1 if vs else 0

    plan = mod.plan(tier, seed)
    nworkers = max(1, min(NCPU, plan.get('workers', NCPU)))
    tmp = tempfile.mkdtemp(prefix='verif_%s_' % pid)
    procs = []
    env = dict(os.environ)
    env.setdefault('PYTHONHASHSEED', '0')
    env['PYTHONPATH'] = os.pathsep.join([REPO, VERIF, os.path.join(VERIF, '.deps')])
    env['GTWRAP_VERIF'] = '1'
    watchdog = plan.get('watchdog_s', 3600)
    try:
        for i in range(nworkers):
            out = os.path.join(tmp, 'w%d.json' % i)
            cmd = [sys.executable, '-c',
                   'import sys; sys.path.insert(0, %r); from vlib import runner; '
                   'runner._worker_main(%r, %r, %d, %d, %d, %r)' % (VERIF, pid, tier, seed, i, nworkers, out)]
            procs.append((subprocess.Popen(cmd, env=env, cwd=tmp, stdout=subprocess.PIPE,
                                           stderr=subprocess.STDOUT), out))
        merged = Acc()
        inconclusive = []
        for i, (p, out) in enumerate(procs):
            try:
                so, _ = p.communicate(timeout=max(1, watchdog - (time.time() - t0)))
            except subprocess.TimeoutExpired:
                p.kill()
                so, _ = p.communicate()
                inconclusive.append('worker %d exceeded the watchdog (%ds)' % (i, watchdog))
            if not os.path.exists(out):
                inconclusive.append('worker %d produced no result (rc=%s): %s' % (
                    i, p.returncode, (so or b'').decode('utf8', 'replace')[-800:]))
                continue
            d = json.load(open(out))
            merged.evaluations += d['evaluations']
            merged.nontrivial.update(d['nontrivial'])
            merged.violations += d['violations']
            merged.known += [tuple(k) for k in d['known']]
            for k, v in d['counters'].items():
                merged.counters[k] = merged.counters.get(k, 0) + v
            for s in d['samples']:
                merged.sample(s)
            merged.notes += d['notes']
            inconclusive += d['inconclusive']
            merged.counters['_n_violations'] = merged.counters.get('_n_violations', 0) + d['n_violations']
    finally:
        for p, _ in procs:
            if p.poll() is None:
                p.kill()
        shutil.rmtree(tmp, ignore_errors=True)

    # monitors that never fired => inconclusive
    for name, need in getattr(mod, 'MIN_EVENTS', {}).get(tier, {}).items():
        if merged.counters.get(name, 0) < need:
            inconclusive.append('monitor counter %s = %d < %d' % (name, merged.counters.get(name, 0), need))
    if merged.evaluations == 0:
        inconclusive.append('no case was evaluated')

    # violations -> replay files
    nviol = merged.counters.pop('_n_violations', 0)
    rdir = os.path.join(VERIF, 'replays', pid)
    lines = []
    seen = set()
    for v in merged.violations:
        key = h(v['case'])
        if key in seen:
            continue
        seen.add(key)
        os.makedirs(rdir, exist_ok=True)
        path = os.path.join(rdir, key + '.json')
        json.dump({'property': pid, 'tier': tier, 'seed': seed, 'case': v['case'], 'detail': v['detail']},
                  open(path, 'w'), indent=1, default=str)
        lines.append('VIOLATION property=%s replay=%s' % (pid, path))
        if len(lines) <= 5:
            print('  detail: %s' % json.dumps(v['detail'], default=str)[:600])
    known_seen = sorted(set(merged.known))
    for key, what in known_seen:
        print('KNOWN-FINDING: property=%s %s [%s]' % (pid, what, key))
    for l in lines[:20]:
        print(l)

    wall = time.time() - t0
    ev = {
        'property_id': pid, 'tier': tier, 'seed': seed, 'level': 'exploration',
        'coverage': {
            # (a run that stops at its first step - e.g. the header under test does not build - has evaluated that step)
            'evaluations': max(merged.evaluations, len(seen)),
            'distinct_nontrivial': len(merged.nontrivial),
            'rule': mod.RULE,
            'samples': merged.samples or ['(none)'],
            'monitor_counters': dict(sorted(merged.counters.items())),
            'known_findings_reproduced': [k for k, _ in known_seen],
            'workers': nworkers,
            'notes': merged.notes[:20],
            'inconclusive': inconclusive,
        },
        'assumptions': getattr(mod, 'ASSUMPTIONS', []),
        'wall_s': round(wall, 2),
        'violations': nviol,
    }
    os.makedirs(os.path.join(VERIF, 'evidence'), exist_ok=True)
    json.dump(ev, open(os.path.join(VERIF, 'evidence', pid + '.json'), 'w'), indent=1, default=str)
    print('%s %s: %d cases, %d distinct non-trivial, %d violations, %d known findings, %.1fs; counters %s' % (
        pid, tier, merged.evaluations, len(merged.nontrivial), nviol, len(known_seen), wall,
        json.dumps(dict(sorted(merged.counters.items())))[:1500]))
    if lines:
        return 1
    if inconclusive:
        for x in inconclusive[:10]:
            print('INCONCLUSIVE: %s' % x[:1500])
        return 2
    return 0


def main(argv=None):
    import argparse
    ap = argparse.ArgumentParser()
    ap.add_argument('pid')
    ap.add_argument('--tier', default=os.environ.get('VERIF_TIER', 'quick'), choices=['quick', 'thorough'])
    ap.add_argument('--seed', type=int, default=int(os.environ.get('VERIF_SEED', '0') or 0))
    ap.add_argument('--replay')
    a = ap.parse_args(argv)
    ensure_deps()
    sys.exit(run(a.pid, a.tier, a.seed, a.replay))
