"""Extractors for the MATLAB toolbox emitted by gtwrap (wrapper .cpp + .m files)."""
import re

_ROUTINE = re.compile(r'^void ([^\s(]+?)_(\d+)\(int nargout, mxArray \*out\[\], int nargin, const mxArray \*in\[\]\)\s*\{?\s*$')


def split_cpp(cpp):
    """-> dict(pre=text before the first routine, routines=[(name, id, body text)], mex=text of mexFunction on)"""
    lines = cpp.split('\n')
    routines = []
    pre = []
    i = 0
    n = len(lines)
    mex_at = None
    cur = None
    while i < n:
        l = lines[i]
        if l.startswith('void mexFunction('):
            mex_at = i
            break
        m = _ROUTINE.match(l)
        if m:
            if cur:
                routines.append(cur)
            cur = [m.group(1), int(m.group(2)), []]
        elif cur is not None:
            cur[2].append(l)
        else:
            pre.append(l)
        i += 1
    if cur:
        routines.append(cur)
    out = []
    for name, rid, body in routines:
        txt = '\n'.join(body).strip('\n')
        out.append((name, rid, txt))
    return {'pre': '\n'.join(pre), 'routines': out, 'mex': '\n'.join(lines[mex_at:]) if mex_at is not None else ''}


def cases(mex):
    """switch table: [(id, routine symbol called)]"""
    return [(int(a), b) for a, b in re.findall(r'case (\d+):\s*\n\s*([^\s(]+)\(nargout, out, nargin-1, in\+1\);', mex)]


def normalize_ids_m(text, module):
    return re.sub(r'(%s_wrapper\()\d+' % re.escape(module), r'\1#', text)


def call_sites(mtext, module):
    return [int(x) for x in re.findall(r'%s_wrapper\((\d+)' % re.escape(module), mtext)]
