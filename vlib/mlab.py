"""Extractors for the MATLAB toolbox emitted by gtwrap (wrapper .cpp + .m files)."""
import re

_ROUTINE = re.compile(r'^void ([^\s(]+?)_(\d+)\(int nargout, mxArray \*out\[\], int nargin, const mxArray \*in\[\]\)\s*\{?\s*$')


def split_cpp(cpp):
    """-> dict(pre=text before the first routine, routines=[(name, id, body text)], mex=text of mexFunction on)"""
    lines = cpp.split('\n')
    routines = []
    pre = []
    i = 0
    n = len(lines)
    mex_at = None
    cur = None
    while i < n:
        l = lines[i]
        if l.startswith('void mexFunction('):
            mex_at = i
            break
        m = _ROUTINE.match(l)
        if m:
            if cur:
                routines.append(cur)
            cur = [m.group(1), int(m.group(2)), []]
        elif cur is not None:
            cur[2].append(l)
        else:
            pre.append(l)
        i += 1
    if cur:
        routines.append(cur)
    out = []
    for name, rid, body in routines:
        txt = '\n'.join(body).strip('\n')
        out.append((name, rid, txt))
    return {'pre': '\n'.join(pre), 'routines': out, 'mex': '\n'.join(lines[mex_at:]) if mex_at is not None else ''}


def cases(mex):
    """switch table: [(id, routine symbol called)]"""
    return [(int(a), b) for a, b in re.findall(r'case (\d+):\s*\n\s*([^\s(]+)\(nargout, out, nargin-1, in\+1\);', mex)]


def normalize_ids_m(text, module):
    return re.sub(r'(%s_wrapper\()\d+' % re.escape(module), r'\1#', text)


def call_sites(mtext, module):
    return [int(x) for x in re.findall(r'%s_wrapper\((\d+)' % re.escape(module), mtext)]


# ---------------------------------------------------------------- .m files
_GUARD = re.compile(r"isa\(varargin\{(\d+)\},'([^']*)'\)")
_SIZE = re.compile(r"size\(varargin\{(\d+)\},(\d)\)==(\d+)")


def _guards(cond):
    g = [(int(i), c) for i, c in _GUARD.findall(cond)]
    s = [(int(i), int(d), int(v)) for i, d, v in _SIZE.findall(cond)]
    return g, s


def _call(line, module):
    """'[ a b ] = mod_wrapper(12, x, y);' -> (lhs text, id, arg text list)"""
    m = re.search(r'^(?:(.*?)\s*=\s*)?%s_wrapper\((\d+)(?:,\s*(.*))?\);\s*$' % re.escape(module), line.strip())
    if not m:
        return None
    args = [a.strip() for a in (m.group(3) or '').split(',') if a.strip()]
    return (m.group(1) or '').strip(), int(m.group(2)), args


def parse_m(text, module):
    """Structure of one generated .m file (classdef, enumeration classdef or function file)."""
    lines = text.split('\n')
    out = {'kind': None, 'comment': [l for l in lines if l.startswith('%')]}
    body = [l for l in lines if not l.startswith('%')]
    first = next((l for l in body if l.strip()), '')
    m = re.match(r'^classdef (\S+) < (.+?)\s*$', first)
    if m and any(l.strip() == 'enumeration' for l in body):
        out.update(kind='enum', name=m.group(1), base=m.group(2), values=[])
        for l in body:
            mm = re.match(r'^\s+(\w+)\((\d+)\)\s*$', l)
            if mm:
                out['values'].append((mm.group(1), int(mm.group(2))))
        return out
    if m:
        out.update(kind='class', name=m.group(1), base=m.group(2), properties=[], ctor=None, delete=None,
                   methods={}, statics={}, accessors={}, other_functions=[], serialize=None, deserialize=None)
        _parse_class(body, out, module)
        return out
    m = re.match(r'^function varargout = (\S+)\(varargin\)\s*$', first)
    if m:
        out.update(kind='function', name=m.group(1), overloads=[], error=None)
        cur = None
        for l in body[1:]:
            s = l.strip()
            mm = re.match(r'^(if|elseif) length\(varargin\) == (\d+)(.*)$', s)
            if mm:
                g, sz = _guards(mm.group(3))
                cur = {'arity': int(mm.group(2)), 'guards': g, 'sizes': sz, 'keyword': mm.group(1)}
                out['overloads'].append(cur)
                continue
            c = _call(s, module)
            if c and cur is not None:
                cur.update(lhs=c[0], id=c[1], args=c[2])
                continue
            mm = re.match(r"^error\('(.*)'\);$", s)
            if mm:
                out['error'] = mm.group(1)
        return out
    out['kind'] = 'unknown'
    return out


def _parse_class(body, out, module):
    i = 0
    n = len(body)
    section = None
    cur_fn = None
    while i < n:
        s = body[i].strip()
        if s == 'properties':
            i += 1
            while body[i].strip() != 'end':
                out['properties'].append(body[i].strip())
                i += 1
        elif s == 'methods':
            section = 'methods'
        elif s == 'methods(Static = true)':
            section = 'static'
        else:
            m = re.match(r'^function obj = (\S+)\(varargin\)$', s)
            if m:
                i = _parse_ctor(body, i, out, module)
                continue
            if s == 'function delete(obj)':
                c = _call(body[i + 1], module)
                out['delete'] = {'id': c[1], 'args': c[2]} if c else None
                i += 2
                continue
            m = re.match(r'^function varargout = (\S+)\(this, varargin\)$', s)
            if m:
                i = _parse_branches(body, i + 1, out['methods'].setdefault(m.group(1), []), module, out, 'method', m.group(1))
                continue
            m = re.match(r'^function varargout = (\S+)\(varargin\)$', s)
            if m and section == 'static':
                i = _parse_branches(body, i + 1, out['statics'].setdefault(m.group(1), []), module, out, 'static', m.group(1))
                continue
            m = re.match(r'^function varargout = get\.(\S+)\(this\)$', s)
            if m:
                c = _call(body[i + 1], module)
                out['accessors'].setdefault(m.group(1), {})['get'] = {'id': c[1], 'lhs': c[0], 'args': c[2]} if c else None
                i += 2
                continue
            m = re.match(r'^function set\.(\S+)\(this, value\)$', s)
            if m:
                c = _call(body[i + 2], module)
                out['accessors'].setdefault(m.group(1), {})['set'] = {'id': c[1], 'args': c[2]} if c else None
                i += 3
                continue
            m = re.match(r'^function (.*)$', s)
            if m and not s.startswith('function display') and not s.startswith('function disp'):
                out['other_functions'].append(s)
        i += 1


def _parse_ctor(body, i, out, module):
    ctor = {'name': re.match(r'^\s*function obj = (\S+)\(', body[i]).group(1), 'pointer': None, 'overloads': [],
            'base_chain': None, 'ptr_assign': None, 'error': None}
    out['ctor'] = ctor
    i += 1
    depth = 0
    cur = None
    in_ptr = False
    while i < len(body):
        s = body[i].strip()
        if s.startswith('if (nargin == 2 || (nargin == 3') or s.startswith('if nargin == 2 && isa(varargin{1}, \'uint64\')'):
            ctor['pointer'] = {'virtual': s.startswith('if (nargin == 2 ||'), 'upcast_id': None, 'collector_id': None,
                               'returns_base': False, 'key_checked': 'uint64(5139824614673773682)' in s}
            in_ptr = True
        elif in_ptr and s.startswith('my_ptr = %s_wrapper(' % module):
            ctor['pointer']['upcast_id'] = _call(s, module)[1]
        elif in_ptr and (s.startswith('%s_wrapper(' % module) or s.startswith('base_ptr = %s_wrapper(' % module)):
            c = _call(s, module)
            ctor['pointer']['collector_id'] = c[1]
            ctor['pointer']['returns_base'] = c[0] == 'base_ptr'
            ctor['pointer']['collector_args'] = c[2]
        elif s.startswith('elseif nargin == '):
            in_ptr = False
            m = re.match(r'^elseif nargin == (\d+)(.*)$', s)
            g, sz = _guards(m.group(2))
            cur = {'arity': int(m.group(1)), 'guards': g, 'sizes': sz}
            ctor['overloads'].append(cur)
        elif cur is not None and ('%s_wrapper(' % module) in s and not in_ptr:
            c = _call(s, module)
            if c:
                cur.update(lhs=c[0], id=c[1], args=c[2])
                cur = None
        elif s.startswith("error('"):
            ctor['error'] = s
        elif s.startswith('obj = obj@'):
            m = re.match(r'^obj = obj@(\S+)\(uint64\(5139824614673773682\), base_ptr\);$', s)
            ctor['base_chain'] = m.group(1) if m else s
        elif s.startswith('obj.ptr_'):
            m = re.match(r'^obj\.(ptr_\S+) = my_ptr;$', s)
            ctor['ptr_assign'] = m.group(1) if m else s
            # the constructor function ends with the next 'end'
            return i + 1
        i += 1
    return i


def _parse_branches(body, i, sink, module, out, role, name):
    """branches of a method / static method: 'if length(varargin) == N && ...' + call + return/end; stops at the
    closing error(...) line."""
    cur = None
    while i < len(body):
        s = body[i].strip()
        m = re.match(r'^if length\(varargin\) == (\d+)(.*)$', s)
        if m:
            g, sz = _guards(m.group(2))
            cur = {'arity': int(m.group(1)), 'guards': g, 'sizes': sz}
            sink.append(cur)
        else:
            c = _call(s, module)
            if c and cur is not None:
                cur.update(lhs=c[0], id=c[1], args=c[2])
                cur = None
            elif c and name == 'string_serialize':
                out['serialize'] = {'id': c[1]}
            elif s.startswith("error('"):
                return i + 1
            elif s.startswith('function '):
                return i
        i += 1
    return i


# ---------------------------------------------------------------- wrapper .cpp
def parse_routine(name, rid, body):
    """Identity of a gateway routine read from its body."""
    r = {'name': name, 'id': rid, 'role': None, 'check': None, 'unwraps': [], 'call': None, 'wraps': [], 'raw': body}
    m = re.search(r'checkArguments\("([^"]*)",nargout,nargin(-1)?,(\d+)\);', body)
    if m:
        r['check'] = {'label': m.group(1), 'minus1': bool(m.group(2)), 'count': int(m.group(3))}
    m = re.search(r'typedef std::shared_ptr<(.*)> Shared;', body)
    if m:
        r['shared'] = m.group(1)
    m = re.search(r'typedef std::shared_ptr<(.*)> SharedBase;', body)
    if m:
        r['shared_base'] = m.group(1)
    for mm in re.finditer(r'^\s*(\S.*?) (\w+) = (\*?)(unwrap\w*)<\s*(.*?)\s*>\(in\[(\d+)\](?:,\s*"([^"]*)")?\);\s*$', body, re.M):
        r['unwraps'].append({'decl': mm.group(1), 'var': mm.group(2), 'deref': mm.group(3) == '*', 'fn': mm.group(4),
                             'type': mm.group(5), 'index': int(mm.group(6)), 'ptr': mm.group(7)})
    m = re.search(r'auto obj = unwrap_shared_ptr<(.*)>\(in\[0\], "([^"]*)"\);', body)
    if m:
        r['self'] = {'type': m.group(1), 'ptr': m.group(2)}
        r['unwraps'] = [u for u in r['unwraps'] if u['var'] != 'obj']
    if 'collector_' in body and '.insert(self)' in body and 'new Shared(new ' not in body and 'upcast' not in name:
        r['role'] = 'collector'
        r['collector'] = re.search(r'collector_(\w+)\.insert\(self\)', body).group(1)
    elif 'static_pointer_cast' in body:
        r['role'] = 'upcast'
        r['cast'] = re.search(r'static_pointer_cast<(.*)>\(\*asVoid\)', body).group(1)
    elif 'new Shared(new ' in body:
        r['role'] = 'constructor'
        m = re.search(r'Shared \*self = new Shared\(new (.*?)\((.*)\)\);\s*$', body, re.M)
        r['call'] = {'callee': m.group(1), 'args': _split_args(m.group(2))}
        r['collector'] = re.search(r'collector_(\w+)\.insert\(self\)', body).group(1)
        r['base_out'] = 'out[1]' in body
    elif 'delete self;' in body:
        r['role'] = 'deconstructor'
        r['collector'] = re.search(r'collector_(\w+)\.erase\(item\)', body).group(1) if 'erase(item)' in body else None
    elif 'boost::archive::text_oarchive' in body:
        r['role'] = 'serialize'
    elif 'boost::archive::text_iarchive' in body:
        r['role'] = 'deserialize'
    else:
        # method / static / function / property accessor: last statement(s)
        stmts = [l.strip() for l in body.split('\n') if l.strip() and not l.strip().startswith('checkArguments')
                 and ' = unwrap' not in l and ' = *unwrap' not in l and l.strip() not in ('{', '}')]
        r['statements'] = stmts
        if re.search(r'_get_\w+$', name) and r.get('self') and stmts and 'obj->' in stmts[-1] and '(' not in stmts[-1].split('obj->')[1].split(')')[0].replace('(', '', 0)[:0]:
            pass
        r['role'] = 'call'
    return r


def _split_args(s):
    from .pyinv import split_top
    return [a.strip() for a in split_top(s, ',', angle=True) if a.strip()]


def parse_cpp(cpp):
    sp = split_cpp(cpp)
    pre = sp['pre']
    out = {'routines': [parse_routine(n, i, b) for n, i, b in sp['routines']], 'cases': cases(sp['mex']),
           'includes': re.findall(r'^#include <(.*)>$', pre, re.M),
           'typedefs': re.findall(r'^typedef (.*) (\w+);$', pre, re.M),
           'collectors': re.findall(r'^typedef std::set<std::shared_ptr<(.*)>\*> Collector_(\w+);$', pre, re.M),
           'collector_vars': re.findall(r'^static Collector_(\w+) collector_(\w+);$', pre, re.M),
           'delete_blocks': re.findall(r'for\(Collector_(\w+)::iterator iter = collector_(\w+)\.begin\(\);', pre),
           'rtti': re.findall(r'types\.insert\(std::make_pair\(typeid\((.*?)\)\.name\(\), "([^"]*)"\)\);', pre),
           'boost_exports': re.findall(r'^BOOST_CLASS_EXPORT_GUID\((.*), "(.*)"\);$', pre, re.M),
           'pre': pre, 'mex': sp['mex']}
    out['typedefs'] = [t for t in out['typedefs'] if not t[0].startswith('std::set<')]
    return out
