"""Python side of the MATLAB session simulator (C11): plan extraction from the generated .m files, random
history generation, script writing, build, and the offline checker of the simulator's event log."""
import os
import random
import re
import shutil
import subprocess
from . import cxxlib, mlwork, ref_inst, ref_matlab
from . import spec as S
from .runner import REPO, VERIF

SAN = ['-fsanitize=address,undefined', '-fno-sanitize-recover=all', '-fno-omit-frame-pointer']


def build(tmp, tb, libtext, san=True):
    """compile the generated gateway (unedited) + real matlab.h + mock MEX + simulator."""
    os.makedirs(os.path.join(tmp, 'gtwrap'), exist_ok=True)
    shutil.copy(os.path.join(REPO, 'matlab.h'), os.path.join(tmp, 'gtwrap', 'matlab.h'))
    open(os.path.join(tmp, 'lib.h'), 'w').write(libtext)
    wrapper = os.path.join(tmp, tb.module + '_wrapper.cpp')
    open(wrapper, 'w').write(tb.raw[tb.module + '_wrapper.cpp'])
    exe = os.path.join(tmp, 'msim')
    mm = os.path.join(VERIF, 'cxx', 'mockmex')
    cmd = ['clang++', '-std=c++17', '-O0', '-g', '-w'] + (SAN if san else []) + \
          ['-I', mm, '-I', tmp, wrapper, os.path.join(VERIF, 'cxx', 'msim.cpp'), os.path.join(mm, 'mockmex.cpp'), '-o', exe]
    p = subprocess.run(cmd, stdout=subprocess.PIPE, stderr=subprocess.PIPE, timeout=900)
    if p.returncode != 0:
        return None, p.stderr.decode('utf8', 'replace')
    return exe, ''


def fmt_double(x):
    return '%.17g' % x


class Plan:
    """call plan of one toolbox: classes, callables with their .m branches, taken from the generated files
    (ids, guards, outputs) and matched with the model (expected entity, parameter kinds, defaults)."""

    def __init__(self, mod, tb, module='modx'):
        self.mod = mod
        self.tb = tb
        self.exp = ref_matlab.Expect(mod, module)
        self.M = ref_matlab.Marshal(self.exp)
        self.classes = {}        # matlab name -> record
        self.functions = []      # records
        self.problems = []
        self.enum_vals = {}      # matlab enum class -> [names]
        for path, d in self.exp.files.items():
            if d['kind'] == 'enum':
                parts = [x[1:] for x in path.split('/')[:-1]]
                self.enum_vals['.'.join(parts + [d['name']])] = d['values']
        for path, d in self.exp.files.items():
            p = tb.m.get(path)
            if p is None:
                continue
            if d['kind'] == 'class' and p['kind'] == 'class':
                self._klass(path, d, p)
            elif d['kind'] == 'function' and p['kind'] == 'function':
                self._function(path, d, p)
        # superclass chains (from the classdef lines)
        for name, c in self.classes.items():
            chain = []
            cur = c
            while cur and cur['parent']:
                chain.append(cur['parent'])
                cur = self.classes.get(cur['parent'])
            c['ancestors'] = chain

    def canon(self, d):
        return cxxlib.canon(d['this'])

    def _klass(self, path, d, p):
        mname = '.'.join(d['path'] + (d['name'],))
        ptr = p['ctor']['pointer'] if p['ctor'] else None
        parent = p['base'] if p['base'] != 'handle' else None
        rec = {'matlab': mname, 'd': d, 'p': p, 'canon': self.canon(d), 'parent': parent, 'ptrprop': d['ptr'],
               'collector': ptr['collector_id'] if ptr else -1, 'upcast': ptr['upcast_id'] if ptr and ptr['upcast_id'] is not None else -1,
               'delete': p['delete']['id'] if p['delete'] else -1, 'returns_base': bool(ptr and ptr['returns_base']),
               'ctors': [], 'methods': [], 'statics': [], 'props': [], 'virtual': d['virtual']}
        # constructor branches <-> (ctor model, arity) in order
        got = list(p['ctor']['overloads']) if p['ctor'] else []
        want = []
        for m, menv in d['ctors']:
            for n in ref_matlab.arities(m.args):
                want.append((m, menv, n))
        if len(got) != len(want):
            self.problems.append('%s: constructor branches %d vs %d expected' % (path, len(got), len(want)))
        for g, (m, menv, n) in zip(got, want):
            rec['ctors'].append({'branch': g, 'm': m, 'env': menv, 'n': n, 'entity': rec['canon'] + '::' + d['model'].name})
        rec['ctor_branches'] = got
        for role, table, parsed, sink in (('method', d['methods'], p['methods'], rec['methods']),
                                          ('static', d['statics'], p['statics'], rec['statics'])):
            for name, overloads in table.items():
                got = parsed.get(name, [])
                want = []
                for m, menv, mi in overloads:
                    targs = ('<' + ','.join(cxxlib.canon(i) for i in mi) + '>') if m.template else ''
                    for n in ref_matlab.arities(m.args):
                        want.append((m, menv, n, targs))
                if len(got) != len(want):
                    self.problems.append('%s %s: branches %d vs %d expected' % (path, name, len(got), len(want)))
                for g, (m, menv, n, targs) in zip(got, want):
                    sink.append({'name': name, 'branch': g, 'branches': got, 'm': m, 'env': menv, 'n': n,
                                 'entity': rec['canon'] + '::' + m.name + targs})
        for m in d['props']:
            acc = p['accessors'].get(m.name)
            if acc and acc.get('get') and acc.get('set'):
                rec['props'].append({'m': m, 'get': acc['get']['id'], 'set': acc['set']['id']})
        self.classes[mname] = rec

    def _function(self, path, d, p):
        got = p['overloads']
        want = []
        for f, combo in d['overloads']:
            env = {pp.name: i for pp, i in zip(f.template or (), combo)}
            for n in ref_matlab.arities(f.args):
                want.append((f, env, n))
        if len(got) != len(want):
            self.problems.append('%s: branches %d vs %d expected' % (path, len(got), len(want)))
        for g, (f, env, n) in zip(got, want):
            self.functions.append({'name': d['name'], 'branch': g, 'branches': got, 'm': f, 'env': env, 'n': n,
                                   'entity': '::'.join(d['path'] + (f.name,)), 'this': None})

    # ---- footprint: which live-object counters one object of a class contributes to
    def footprint(self, mname, depth=0):
        rec = self.classes[mname]
        out = {rec['canon']: 1}
        if rec['parent'] and rec['parent'] in self.classes:
            for k, v in self.footprint(rec['parent'], depth + 1).items():
                out[k] = out.get(k, 0) + v
        if depth < 6:
            for m in rec['d']['props']:
                t = ref_inst.subst(m.type, rec['d']['env'], rec['d']['this'])
                k, info = self.M.kind(t)
                if k == 'class' and t.marker in ('', ):
                    sub = self.M.matlab_class(info)
                    for kk, v in self.footprint(sub, depth + 1).items():
                        out[kk] = out.get(kk, 0) + v
        return out

    def class_table_lines(self):
        out = []
        for name, c in self.classes.items():
            out.append('\t'.join(['CLASS', name, c['parent'] or '-', c['ptrprop'], str(c['collector']), str(c['upcast']),
                                  str(c['delete']), '1' if c['returns_base'] else '0']))
        return out


class History:
    """Random session over a plan; produces the simulator script and, per operation, what to expect."""

    def __init__(self, plan, seed, nops):
        self.P = plan
        self.r = random.Random(seed)
        self.nops = nops
        self.ops = []          # dicts: kind, line, expect...
        self.vars = {}         # var -> {'class': matlab name, 'obj': object id}
        self.nvar = 0
        self.nobj = 0

    # ---- values
    def newvar(self):
        self.nvar += 1
        return 'v%d' % self.nvar

    def isa(self, cls, wanted):
        return cls == wanted or wanted in self.P.classes[cls]['ancestors']

    def value(self, t, i, depth=0):
        """-> (script token, matlab class of the value, sizes (m,n), expected serialisation | ('obj', var))"""
        r = self.r
        k, info = self.P.M.kind(t)
        if k == 'scalar':
            if info in ('int', 'size_t'):
                v = r.randint(0, 900) + i
                if info == 'int' and r.random() < 0.3:
                    v = -v
                return 'd:%d' % v, 'double', (1, 1), str(v)
            if info == 'double':
                v = r.randint(-500, 500) + r.choice([0.5, 0.25, 0.125, 0.0])
                return 'd:%s' % repr(v), 'double', (1, 1), fmt_double(v)
            if info == 'bool':
                v = r.random() < 0.5
                return 'l:%d' % v, 'logical', (1, 1), 'true' if v else 'false'
            if info == 'char':
                ch = r.choice('abcxyzQ7')
                return 'c:%s' % ch.encode().hex(), 'char', (1, 1), 'c%d' % ord(ch)
            if info == 'unsigned char':
                v = r.randint(1, 250)
                return 'd:%d' % v, 'double', (1, 1), 'uc%d' % v
        if k == 'string':
            s = r.choice(['hi', 'a b', 'text%d' % i, 'x,y;z', 'q'])
            return 'c:%s' % s.encode().hex(), 'char', (1, len(s)), "'%s'" % s
        if k == 'eigen':
            if info == 'Vector':
                n = r.randint(0, 5)
                xs = [r.randint(-9, 9) + 0.5 for _ in range(n)]
                return 'v:%d:%s' % (n, ';'.join(repr(x) for x in xs)), 'double', (n, 1), 'V[' + ','.join(fmt_double(x) for x in xs) + ']'
            if info in ('Point2', 'Point3'):
                n = 2 if info == 'Point2' else 3
                xs = [r.randint(-9, 9) + 0.25 for _ in range(n)]
                return 'v:%d:%s' % (n, ';'.join(repr(x) for x in xs)), 'double', (n, 1), 'P%d[' % n + ','.join(fmt_double(x) for x in xs) + ']'
            rr, cc = r.randint(0, 3), r.randint(0, 3)
            xs = [float(a * 10 + b) for a in range(rr) for b in range(cc)]
            return ('m:%d:%d:%s' % (rr, cc, ';'.join(repr(x) for x in xs)), 'double', (rr, cc),
                    'M%dx%d[' % (rr, cc) + ''.join(fmt_double(x) + ',' for x in xs) + ']')
        if k == 'enum':
            mname = self.P.exp.enums[info]
            vals = self.P.enum_vals.get(mname)
            if not vals:
                return None
            idx = r.randrange(len(vals))
            return 'e:%s:%d' % (mname, idx), mname, (1, 1), 'e%d' % idx
        if k == 'class':
            want = self.P.M.matlab_class(info)
            cands = [v for v, rec in self.vars.items() if self.isa(rec['class'], want)]
            if not cands:
                v = self.make_instance(want, depth)
                if v is None:
                    return None
                cands = [v]
            v = r.choice(cands)
            return 'o:%s' % v, self.vars[v]['class'], (1, 1), ('obj', v)
        return None

    def make_instance(self, want, depth=0):
        """emit a NEW op creating an object that isa `want`; returns the variable or None."""
        if depth > 2:
            return None
        cands = [n for n, c in self.P.classes.items() if c['ctors'] and (n == want or want in c['ancestors'])]
        self.r.shuffle(cands)
        for n in cands:
            ctors = sorted(self.P.classes[n]['ctors'], key=lambda c: c['n'])
            for ct in ctors[:2]:
                v = self.emit_new(n, ct, depth + 1)
                if v:
                    return v
        return None

    def args_for(self, callable_, depth=0):
        m, env, n = callable_['m'], callable_['env'], callable_['n']
        this = callable_.get('this_t')
        toks, classes, sizes, sers = [], [], [], []
        for i, a in enumerate(m.args[:n]):
            t = ref_inst.subst(a.type, env, this)
            v = self.value(t, i, depth) if depth < 3 else None
            if v is None:
                return None
            toks.append(v[0])
            classes.append(v[1])
            sizes.append(v[2])
            sers.append(v[3])
        # omitted defaults
        for a in m.args[n:]:
            t = ref_inst.subst(a.type, env, this)
            sers.append(self.default_ser(a.default, t))
        return toks, classes, sizes, sers

    def default_ser(self, text, t):
        k, info = self.P.M.kind(t)
        text = text.strip()
        try:
            if k == 'scalar':
                if info in ('int', 'size_t'):
                    return str(int(text))
                if info == 'double':
                    if re.match(r'^[\d\.\s\+\-\*\(\)eE]+$', text):
                        return fmt_double(float(eval(text, {'__builtins__': {}})))
                    return fmt_double(float(text))
                if info == 'bool':
                    return text
                if info == 'char':
                    return 'c%d' % ord(text[1])
                if info == 'unsigned char':
                    return 'uc%d' % int(text)
            if k == 'string':
                return "'%s'" % text[1:-1]
            if k == 'enum':
                mname = self.P.exp.enums[info]
                return 'e%d' % self.P.enum_vals[mname].index(text.split('::')[-1])
        except Exception:
            return None
        return None       # objects: any fresh object

    def dispatch(self, branches, classes, sizes):
        """index of the first branch whose guard accepts the values (as the .m file would)."""
        n = len(classes)
        for bi, b in enumerate(branches):
            if b['arity'] != n:
                continue
            ok = True
            for idx, cls in b['guards']:
                have = classes[idx - 1]
                if cls == 'numeric':
                    good = have == 'double'
                elif cls in ('double', 'logical', 'char'):
                    good = have == cls
                elif have in self.P.classes:
                    good = self.isa(have, cls)
                else:
                    good = have == cls
                if not good:
                    ok = False
                    break
            for idx, dim, val in b['sizes']:
                if sizes[idx - 1][dim - 1] != val:
                    ok = False
            if ok:
                return bi
        return None

    # ---- operations
    def emit_new(self, mname, ct, depth=0):
        c = self.P.classes[mname]
        ct = dict(ct)
        ct['this_t'] = c['d']['this']
        a = self.args_for(ct, depth)
        if a is None:
            return None
        toks, classes, sizes, sers = a
        bi = self.dispatch(c['ctor_branches'], classes, sizes)
        if bi is None:
            return None
        chosen = c['ctors'][bi] if bi < len(c['ctors']) else None
        if chosen is None:
            return None
        if chosen is not ct and (chosen['m'] is not ct['m'] or chosen['n'] != ct['n']):
            # another overload wins the dispatch: expectations follow the .m file
            ct2 = dict(chosen)
            ct2['this_t'] = c['d']['this']
            sers = sers[:ct['n']] + [self.default_ser(x.default, ref_inst.subst(x.type, ct2['env'], ct2['this_t'])) for x in ct2['m'].args[ct2['n']:]]
            ct = ct2
        v = self.newvar()
        self.nobj += 1
        self.vars[v] = {'class': mname, 'obj': self.nobj}
        self.ops.append({'kind': 'NEW', 'var': v, 'class': mname,
                         'line': '\t'.join(['NEW', v, mname, str(ct['branch']['id']), str(len(toks))] + toks),
                         'entity': ct['entity'], 'sers': sers, 'ret': None, 'outs': []})
        return v

    def emit_call(self, callable_, self_var, role):
        c = dict(callable_)
        a = self.args_for(c)
        if a is None:
            return False
        toks, classes, sizes, sers = a
        bi = self.dispatch(c['branches'], classes, sizes)
        if bi is None:
            return False
        if c['branches'][bi] is not c['branch']:
            return False       # ambiguous overload set: the intended branch is shadowed; skip
        m = c['m']
        ret = ref_inst.subst_ret(m.ret, c['env'], c.get('this_t'))
        nout = 2 if ret.k == 'Pair' else (0 if (ret.name == 'void' and not ret.ns and not ret.args) else 1)
        lhs = c['branch'].get('lhs')
        if lhs is not None:
            # the .m file decides how many outputs are requested from the gateway
            asked = lhs.count('varargout{')
            if asked != nout:
                self.P.problems.append('%s: the .m file requests %d outputs, the declared return type has %d' % (c['entity'], asked, nout))
                return False
        outs = []
        halves = [ret.first, ret.second] if ret.k == 'Pair' else ([ret] if nout else [])
        for h in halves:
            k, info = self.P.M.kind(h)
            if k == 'class':
                v = self.newvar()
                outs.append({'var': v, 'kind': 'class', 'class': self.P.M.matlab_class(info), 'type': h})
            else:
                outs.append({'var': '-', 'kind': k, 'info': info, 'type': h})
        line = ['CALL', str(c['branch']['id']), str(nout), self_var or '-', str(len(toks))] + toks + [o['var'] for o in outs]
        if nout and not outs:
            line.append('-')
        kept = {}
        if role == 'method':
            for i, (a, s_) in enumerate(zip(m.args[:c['n']], sers)):
                if a.type.marker == '*' and isinstance(s_, tuple):
                    kept[i] = s_[1]           # the receiver may retain this argument object (the library says which)
        self.ops.append({'kind': 'CALL', 'line': '\t'.join(line), 'entity': c['entity'], 'self': self_var, 'role': role,
                         'sers': sers, 'outs': outs, 'ret': ret, 'nout': nout, 'kept': kept})
        for o in outs:
            if o['kind'] == 'class':
                self.nobj += 1
                self.vars[o['var']] = {'class': o['class'], 'obj': self.nobj}
        return True

    def emit_prop(self, mname, var, prop, setter):
        c = self.P.classes[mname]
        t = ref_inst.subst(prop['m'].type, c['d']['env'], c['d']['this'])
        k, info = self.P.M.kind(t)
        if setter:
            v = self.value(t, 0)
            if v is None:
                return False
            self.ops.append({'kind': 'SET', 'line': '\t'.join(['CALL', str(prop['set']), '0', var, '1', v[0]]), 'var': var,
                             'prop': prop['m'].name, 'ser': v[3], 'outs': [], 'nout': 0})
            return True
        outs = []
        if k == 'class':
            nv = self.newvar()
            outs.append({'var': nv, 'kind': 'class', 'class': self.P.M.matlab_class(info), 'type': t})
            self.nobj += 1
            self.vars[nv] = {'class': outs[0]['class'], 'obj': self.nobj}
        else:
            outs.append({'var': '-', 'kind': k, 'info': info, 'type': t})
        self.ops.append({'kind': 'GET', 'line': '\t'.join(['CALL', str(prop['get']), '1', var, '0', outs[0]['var']]), 'var': var,
                         'prop': prop['m'].name, 'outs': outs, 'nout': 1})
        return True

    def generate(self):
        r = self.r
        P = self.P
        constructible = [n for n, c in P.classes.items() if c['ctors']]
        for step in range(self.nops):
            x = r.random()
            if (x < 0.22 or not self.vars) and constructible:
                n = r.choice(constructible)
                self.emit_new(n, r.choice(P.classes[n]['ctors']))
            elif x < 0.55 and self.vars:
                v = r.choice(list(self.vars))
                cls = self.vars[v]['class']
                # methods of the class or of an ancestor (called on the derived instance)
                owner = r.choice([cls] + P.classes[cls]['ancestors'])
                if owner not in P.classes:
                    continue
                ms = P.classes[owner]['methods']
                # a derived class that redefines the name hides the ancestor's method in MATLAB
                if owner != cls:
                    hidden = set()
                    for k in [cls] + P.classes[cls]['ancestors'][:P.classes[cls]['ancestors'].index(owner)]:
                        if k in P.classes:
                            hidden |= {m['name'] for m in P.classes[k]['methods']}
                    ms = [m for m in ms if m['name'] not in hidden]
                if ms:
                    m = dict(r.choice(ms))
                    m['this_t'] = P.classes[owner]['d']['this']
                    self.emit_call(m, v, 'method')
            elif x < 0.65:
                withst = [c for c in P.classes.values() if c['statics']]
                if withst:
                    c = r.choice(withst)
                    m = dict(r.choice(c['statics']))
                    m['this_t'] = c['d']['this']
                    self.emit_call(m, None, 'static')
            elif x < 0.75 and P.functions:
                self.emit_call(dict(r.choice(P.functions)), None, 'function')
            elif x < 0.85 and self.vars:
                v = r.choice(list(self.vars))
                cls = self.vars[v]['class']
                if P.classes[cls]['props']:
                    self.emit_prop(cls, v, r.choice(P.classes[cls]['props']), r.random() < 0.5)
            elif x < 0.97 and self.vars:
                v = r.choice(list(self.vars))
                del self.vars[v]
                self.ops.append({'kind': 'DEL', 'line': 'DEL\t' + v, 'var': v, 'outs': []})
            elif x < 0.985 and self.vars:
                cand = [v for v, rec in self.vars.items() if P.classes[rec['class']]['virtual'] and P.classes[rec['class']]['upcast'] >= 0]
                if cand:
                    src = r.choice(cand)
                    nv = self.newvar()
                    self.vars[nv] = {'class': self.vars[src]['class'], 'obj': self.vars[src]['obj']}
                    self.ops.append({'kind': 'VOIDNEW', 'line': '\t'.join(['VOIDNEW', nv, self.vars[src]['class'], src]),
                                     'var': nv, 'src': src, 'outs': []})
            elif self.vars:
                self.vars = {}
                self.ops.append({'kind': 'UNLOAD', 'line': 'UNLOAD', 'outs': []})
        return self.ops

    def script(self):
        return '\n'.join(self.P.class_table_lines() + [o['line'] for o in self.ops]) + '\n'


def parse_log(text):
    """simulator output -> list of op blocks {n, kind, status, outs, trace, live} + trailer"""
    blocks = []
    cur = None
    trailer = {}
    for line in text.split('\n'):
        if line.startswith('OP '):
            m = re.match(r'^OP (\d+) (\S+) (ok|MEXERROR.*)$', line)
            cur = {'n': int(m.group(1)), 'kind': m.group(2), 'status': m.group(3), 'outs': {}, 'trace': [], 'live': None}
            blocks.append(cur)
        elif line.startswith('OUT ') and cur is not None:
            m = re.match(r'^OUT (\d+) (.*)$', line)
            cur['outs'][int(m.group(1))] = m.group(2)
        elif line.startswith('T ') and cur is not None:
            cur['trace'].append(line[2:])
        elif line.startswith('LIVE') and cur is not None:
            d = {}
            for kv in line[5:].split('\x1f'):
                if '=' in kv:
                    k, v = kv.rsplit('=', 1)
                    d[k] = int(v)
            cur['live'] = d
        elif line == 'END':
            cur = {'n': -1, 'kind': 'END', 'status': 'ok', 'outs': {}, 'trace': [], 'live': None}
            trailer['end'] = cur
        elif line.startswith('ARRAYS '):
            trailer['arrays'] = int(line.split()[1])
    return blocks, trailer


def check_log(plan, ops, blocks, trailer, acc):
    """offline checker: trace entity / receiver / arguments / results / live-object counters per operation."""
    vs = []
    origin = {}        # var -> origin tag learnt from the trace
    live_vars = {}     # var -> (class, object id)
    if len(blocks) != len(ops):
        return [{'what': 'simulator executed %d operations, script has %d' % (len(blocks), len(ops))}]

    obj_of = {}        # var -> (class, object id) for every variable ever bound (also deleted ones)
    retained = {}      # object id -> set of (class, object id) kept alive by it

    def expected_live():
        objs = {}
        work = []
        for v, (cls, oid) in live_vars.items():
            objs[oid] = cls
            work.append(oid)
        while work:        # closure over retention: a C++ object lives while a handle or a live object references it
            o = work.pop()
            for (kc, ko) in retained.get(o, ()):
                if ko not in objs:
                    objs[ko] = kc
                    work.append(ko)
        out = {}
        for oid, cls in objs.items():
            for k, n in plan.footprint(cls).items():
                out[k] = out.get(k, 0) + n
        return out

    def ser_of(s):
        if isinstance(s, tuple):
            o = origin.get(s[1], '?')
            return None if o is None else '#%s' % o       # unknown origin (copy made by a property getter): wildcard
        return s

    for op, b in zip(ops, blocks):
        where = 'op %d %s' % (b['n'], op['line'].replace('\t', ' ')[:120])
        acc.count('ops:' + op['kind'])
        if not b['status'].startswith('ok'):
            vs.append({'what': 'gateway call issued by the generated .m files raised a MEX error', 'op': where, 'error': b['status'][:200]})
            # the op had no effect on the workspace
            for o in op.get('outs', []):
                live_vars.pop(o.get('var'), None)
            if op['kind'] in ('NEW', 'VOIDNEW'):
                live_vars.pop(op['var'], None)
            continue
        kind = op['kind']
        if kind in ('NEW', 'CALL'):
            lines = [t for t in b['trace'] if t.split('\x1e')[0] == op['entity']]
            if len(lines) != 1:
                vs.append({'what': 'gateway id did not reach the declared C++ entity', 'op': where, 'expected': op['entity'],
                           'trace': [t.split('\x1e')[0] for t in b['trace']][:5]})
            else:
                ent, slf, args, ret, keptf = (lines[0].split('\x1e') + [''])[:5]
                op['_kept_idx'] = [int(x) for x in keptf.split(',') if x.strip().isdigit()]
                acc.count('trace_lines_compared')
                if kind == 'NEW':
                    origin[op['var']] = slf[1:]
                elif op['role'] == 'method' and origin.get(op['self'], '?') is not None and slf != '#%s' % origin.get(op['self'], '?'):
                    vs.append({'what': 'method executed on a different receiver object', 'op': where,
                               'expected': '#%s' % origin.get(op['self']), 'actual': slf})
                got = args.split('\x1f') if args else []
                want = [ser_of(s) for s in op['sers']]
                if len(got) != len(want) or any(w is not None and w != g for w, g in zip(want, got)):
                    vs.append({'what': 'C++ entity received different argument values than the MATLAB call supplied (incl. defaults)',
                               'op': where, 'expected': want, 'actual': got})
                # results
                if kind == 'CALL':
                    vs += check_outputs(plan, op, b, ret, origin, where, acc)
            if kind == 'NEW':
                live_vars[op['var']] = (op['class'], id(op))
                obj_of[op['var']] = live_vars[op['var']]
            for o in op['outs']:
                if o['kind'] == 'class' and o['var'] != '-':
                    live_vars[o['var']] = (o['class'], id(o))
                    obj_of[o['var']] = live_vars[o['var']]
            if kind == 'CALL' and op.get('kept') and op.get('self') in obj_of:
                for idx in op.get('_kept_idx', []):
                    kv = op['kept'].get(idx)
                    if kv in obj_of:
                        retained.setdefault(obj_of[op['self']][1], set()).add(obj_of[kv])
        elif kind in ('GET', 'SET'):
            if kind == 'GET':
                o = op['outs'][0]
                got = b['outs'].get(0)
                if o['kind'] == 'class':
                    if got != 'obj:' + o['class']:
                        vs.append({'what': 'property getter returned %r, expected an object of %s' % (got, o['class']), 'op': where})
                    live_vars[o['var']] = (o['class'], id(o))
                    obj_of[o['var']] = live_vars[o['var']]
                    origin[o['var']] = None
                acc.count('property_reads')
            else:
                acc.count('property_writes')
        elif kind == 'DEL':
            live_vars.pop(op['var'], None)
        elif kind == 'VOIDNEW':
            if op['src'] in live_vars:
                live_vars[op['var']] = live_vars[op['src']]
                obj_of[op['var']] = live_vars[op['src']]
                origin[op['var']] = origin.get(op['src'])
        elif kind == 'UNLOAD':
            live_vars.clear()
            retained.clear()
        # quiescent point: live-object counters
        if b['live'] is not None:
            acc.count('quiescent_live_checks')
            exp = expected_live()
            if exp != b['live']:
                diff = {k: (exp.get(k, 0), b['live'].get(k, 0)) for k in set(exp) | set(b['live']) if exp.get(k, 0) != b['live'].get(k, 0)}
                vs.append({'what': 'live C++ objects disagree with the ownership model (expected, actual) per class', 'op': where, 'diff': diff})
                # resynchronise is impossible: stop checking this history
                break
    end = trailer.get('end')
    if end and end['live']:
        vs.append({'what': 'C++ objects still alive after unloading the module', 'live': end['live']})
    if trailer.get('arrays', 0) != 0:
        vs.append({'what': 'mxArrays leaked by the gateway / matlab.h', 'count': trailer.get('arrays')})
    return vs


def check_outputs(plan, op, b, ret_logged, origin, where, acc):
    vs = []
    outs = op['outs']
    if op['nout'] == 0:
        if b['outs']:
            vs.append({'what': 'void callable produced an output', 'op': where, 'outs': b['outs']})
        return vs
    logged = [ret_logged]
    if op['ret'].k == 'Pair':
        inner = ret_logged[1:-1]
        depth = 0
        cut = None
        for k, ch in enumerate(inner):
            if ch in '([':
                depth += 1
            elif ch in ')]':
                depth -= 1
            elif ch == ',' and depth == 0:
                cut = k
                break
        logged = [inner[:cut], inner[cut + 1:]]
    for i, (o, lg) in enumerate(zip(outs, logged)):
        got = b['outs'].get(i)
        acc.count('results_compared')
        if got is None or got == 'unset':
            vs.append({'what': 'declared result %d was not returned to MATLAB' % i, 'op': where})
            continue
        k = o['kind']
        if k == 'class':
            if got != 'obj:' + o['class']:
                vs.append({'what': 'returned object has MATLAB class %r, expected %s' % (got, o['class']), 'op': where})
            origin[o['var']] = lg[1:]
        elif k == 'enum':
            want = 'enum:%s:%s' % (plan.exp.enums[o['info']], lg[1:])
            if got != want:
                vs.append({'what': 'enum result %r, library returned %s' % (got, want), 'op': where})
        elif k == 'string':
            want = 'char:' + lg[1:-1].encode().hex()
            if got != want:
                vs.append({'what': 'string result differs from the library value', 'op': where, 'got': got, 'library': lg})
        elif k == 'scalar':
            info = o['info']
            if info == 'double':
                want = 'num:6:1x1:' + lg
            elif info == 'bool':
                want = 'num:15:1x1:' + ('1' if lg == 'true' else '0')
            elif info == 'char':
                want = 'num:15:1x1:' + str(int(lg[1:]))
            elif info == 'unsigned char':
                want = 'num:15:1x1:' + str(int(lg[2:]))
            elif info == 'int':
                want = 'num:15:1x1:' + str(int(lg) & 0xFFFFFFFF)
            else:
                want = 'num:15:1x1:' + lg
            if got != want:
                vs.append({'what': 'scalar result differs from the library value', 'op': where, 'got': got, 'expected': want})
        elif k == 'eigen':
            # library: V[a,b] / P2[..] / M2x3[a,b,...,]  -> MATLAB double array (column-major)
            if lg.startswith('M'):
                m = re.match(r'^M(\d+)x(\d+)\[(.*)\]$', lg)
                rr, cc = int(m.group(1)), int(m.group(2))
                xs = [x for x in m.group(3).split(',') if x]
                col = [xs[i * cc + j] for j in range(cc) for i in range(rr)]
                want = 'num:6:%dx%d:' % (rr, cc) + ';'.join(col)
            else:
                xs = lg[lg.index('[') + 1:-1]
                xs = [x for x in xs.split(',') if x]
                want = 'num:6:%dx1:' % len(xs) + ';'.join(xs)
            if got != want:
                vs.append({'what': 'vector/matrix result differs from the library value', 'op': where, 'got': got[:200], 'expected': want[:200]})
    return vs
