"""Generator of *coherent* interface models: every type resolves inside the module, declarations are
ordered so that bases / enums / default-value types precede their use, and the types come from the
universe the generated code can be compiled and executed against (see DESIGN.md 3.1).

target: 'pybind' | 'matlab' | 'both' selects the constructs that exist for that generator.
"""
import random
from . import spec as S

SCALARS = ['bool', 'char', 'unsigned char', 'int', 'size_t', 'double']
PY_RESERVED_CPP_OK = ['lambda', 'def', 'in', 'is', 'from', 'global', 'pass', 'del', 'raise', 'import', 'as', 'with',
                      'yield', 'None', 'True', 'False', 'elif', 'except', 'finally', 'nonlocal']
IPY = ['svg', 'png', 'jpeg', 'html', 'javascript', 'markdown', 'latex']


class Knobs:
    def __init__(self, **kw):
        self.ns_depth = 2
        self.namespaces = 2
        self.classes = 4
        self.members = 6
        self.params = 4
        self.funcs = 3
        self.enums = 2
        self.__dict__.update(kw)


class CohGen:
    def __init__(self, seed, knobs=None, target='both', **features):
        self.r = random.Random(seed)
        self.k = knobs or Knobs()
        self.target = target
        f = dict(
            templates=True, inheritance=True, defaults=True, pair_returns=True, enums=True, class_enums=True,
            eigen=(target != 'pybind'),            # Vector / Matrix / Point2 / Point3 (MATLAB universe)
            stl_vector=(target == 'pybind'),       # std::vector<T> (pybind universe)
            properties=True, statics=True, functions=True, variables=(target != 'matlab'),
            operators=(target == 'pybind'), dunders=(target == 'pybind'), special_names=0.0, overloads=True,
            raw_ptr=True, shared_ptr=True, refs=True,
            # ---- flagged (known findings), off in the clean workload
            const_string_ref=False,     # D9  (matlab)
            enum_other_scope=False,     # D31/D32 (matlab): enums used outside their own namespace/class
            enum_in_pair=False,         # D30 (matlab)
            ptr_property=False,         # D33 (matlab)
            static_void_or_pair=True,                   # D11 (matlab, repaired)
            templated_func=(target == 'pybind'),        # D12 (matlab)
            templated_static=(target == 'pybind'),      # D13 (matlab)
            templated_method_pair=True,                 # D22 (matlab, repaired)
            this_types=(target == 'pybind'),            # D10 / D28 (matlab)
            templated_class_as_type=(target == 'pybind'),   # D28 (matlab)
            nested_ns_class_enum=True,                  # class-scoped enum in a class at ns depth >= 2 (D25, repaired)
            global_serialize=True,                      # D20 (repaired)
            ns_var_default=True,                        # namespaced variable with initialiser (D7, repaired)
            nonconst_print=False,                       # D36 (pybind)
            print_required_arg=False,                   # D51 (pybind)
            nonvirtual_inheritance=True,
            tparam_in_vector=True,      # std::vector<T> with T a class template parameter (pybind universe)
            templated_class_enum_use=(target == 'pybind'),
            unsigned_char_params=(target == 'pybind'),  # D41 (matlab): guard isa(x,'unsigned char') can never hold
            class_enum_default=(target == 'matlab'),    # D40 (pybind): default value of the class's own enum type
            typedefs=True,
            serialize_p=0.0,            # probability that a class declares the serialize() marker
            partly_qualified_enum_returns=True,   # (matlab) enum return types spelled relative to their namespace
            same_arity_overloads=True,  # (matlab) overloads of equal arity told apart by the type test of a parameter
            keyword_enumerators=0.12,   # probability that an enum has an enumerator spelled like a Python / MATLAB keyword
            substring_param_names=0.12, # probability that a defaulted parameter's name is contained in an earlier one's
            keyword_params=0.06,        # (pybind) probability that a parameter is named like a Python keyword
            twin_signatures=0.2,        # probability that a callable reuses the parameter list of an earlier one
            member_template_p=0.2,      # methods (and, where the target allows, static methods / free functions) with
                                        # their own template parameter and instantiation list
            ref_returns=True,           # class objects returned by reference / const reference
            enum_namesakes=0.3,         # class-scoped enums of different classes sharing one simple name
            split_overloads=False,      # D50 (matlab): overloads of a free function in two blocks of one namespace
            reopen_ns=0.25,             # a namespace written as two adjacent blocks (D6, repaired)
        )
        f.update(features)
        self.f = f
        self.n = 0
        self.classes = []     # records: dict(ns, name, template, insts, virtual, base, has_default_ctor, enums)
        self.enums = []       # dict(ns, cls or None, name, vals)
        self.cur_ns = ()
        self.cur_class = None
        self.cur_templated = False
        self._directed = False
        self._kw_used = set()
        self._sigs = []       # parameter lists (type, name) of scalar-only callables generated so far

    # ------------------------------------------------------------ names
    def name(self, base):
        self.n += 1
        return '%s%d' % (base, self.n)

    def lname(self):
        return self.name(self.r.choice(['foo', 'bar', 'compute', 'get', 'x', 'val', 'update', 'k', 'run', 'at']))

    def uname(self):
        return self.name(self.r.choice(['Alpha', 'Beta', 'Gamma', 'Node', 'Pose', 'Factor', 'Key', 'Model', 'Q',
                                        'Reconstruction', 'Unstatic', 'Subvirtual']))

    def pname(self):
        """parameter name: now and then a Python keyword (a fine C++ identifier; the binding keeps it as keyword name)"""
        if self.target == 'pybind' and self.r.random() < self.f['keyword_params']:
            return self.r.choice(['lambda', 'in', 'from', 'pass', 'is', 'def', 'global', 'yield', 'None'])
        return self.lname()

    def member_name(self, role):
        if self.r.random() < self.f['special_names']:
            pool = PY_RESERVED_CPP_OK + IPY + ['print'] * 5
            if role == 'method':
                pool = pool + ['serialize', 'serializable']
            return self.r.choice(pool)
        nm = self.lname()
        if role == 'static' and self.r.random() < 0.5:
            nm = nm[0].upper() + nm[1:]
        return nm

    # ------------------------------------------------------------ types
    def visible_classes(self):
        """class instantiations usable as a type here (declared earlier), as T typenames."""
        out = []
        for c in self.classes:
            if c['template'] is None:
                out.append((c, S.T(c['name'], c['ns'])))
            elif self.f['templated_class_as_type']:
                for combo in c['insts']:
                    out.append((c, S.T(c['name'], c['ns'], combo)))
        return out

    def visible_enums(self):
        out = []
        for e in self.enums:
            if self.f['enum_other_scope']:
                ok = True
            elif e['cls'] is not None:
                ok = self.cur_class is not None and e['cls'] == self.cur_class and e['ns'] == self.cur_ns
            else:
                # namespace-level enum: recognised by the MATLAB generator only inside classes of the same namespace
                ok = (self.target == 'pybind') or (self.cur_class is not None and e['ns'] == self.cur_ns)
            if self.target == 'pybind':
                ok = True
            if e.get('templated') and not (self.cur_class == e['cls'] and e['ns'] == self.cur_ns):
                ok = False     # Cls<T>::E can only be spelled as This::E inside its own class
            if e.get('templated') and not self.f['templated_class_enum_use']:
                ok = False     # D28 (matlab): This::E of a templated class gets the C++ spelling as MATLAB class name
            if ok:
                out.append(e)
        return out

    def enum_type(self, e):
        if e['cls'] is not None:
            if e.get('templated'):
                return S.T(e['name'], e['ns'] + ('This',))     # documented spelling inside templated classes
            return S.T(e['name'], e['ns'] + (e['cls'],))
        return S.T(e['name'], e['ns'])

    def arg_type(self, allow_class=True):
        r = self.r
        x = r.random()
        if x < 0.45:
            b = r.choice(SCALARS if self.f['unsigned_char_params'] else [s_ for s_ in SCALARS if s_ != 'unsigned char'])
            if r.random() < 0.15 and self.f['refs']:
                return S.T(b, (), (), True, '&')
            return S.T(b, (), (), r.random() < 0.1)
        if x < 0.55:
            if self.f['const_string_ref'] and r.random() < 0.5:
                return S.T('string', (), (), True, '&')
            return S.T('string')
        if x < 0.65 and self.f['eigen']:
            nm = r.choice(['Vector', 'Matrix', 'Point2', 'Point3'])
            ns = ('gtsam',) if r.random() < 0.5 else ()
            q = r.choice([(False, ''), (True, '&'), (False, '')])
            return S.T(nm, ns, (), q[0], q[1])
        if x < 0.65 and self.f['stl_vector']:
            return S.T('vector', ('std',), (S.T(r.choice(['int', 'double', 'string'])),), r.random() < 0.5,
                       r.choice(['', '&']) if r.random() < 0.5 else '')
        if x < 0.75 and self.f['enums']:
            es = self.visible_enums()
            if es:
                return self.enum_type(r.choice(es))
        if allow_class:
            cs = self.visible_classes()
            if cs:
                c, t = r.choice(cs)
                modes = ['value', 'cref']
                if self.f['refs']:
                    modes.append('ref')
                if self.f['shared_ptr']:
                    modes += ['shared', 'shared']
                if self.f['raw_ptr']:
                    modes.append('raw')
                m = r.choice(modes)
                if m == 'value':
                    return t
                if m == 'cref':
                    return S.T(t.name, t.ns, t.args, True, '&')
                if m == 'ref':
                    return S.T(t.name, t.ns, t.args, False, '&')
                if m == 'shared':
                    return S.T(t.name, t.ns, t.args, False, '*')
                return S.T(t.name, t.ns, t.args, False, '@')
        return S.T(r.choice(SCALARS if self.f['unsigned_char_params'] else [s_ for s_ in SCALARS if s_ != 'unsigned char']))

    def ret_type(self, allow_pair=True, allow_void=True):
        r = self.r
        x = r.random()
        if x < 0.2 and allow_void:
            return S.VOID
        if x < 0.35 and allow_pair and self.f['pair_returns']:
            return S.Pair(self.single_ret(in_pair=True), self.single_ret(in_pair=True), r.random() < 0.5)
        return self.single_ret()

    def single_ret(self, in_pair=False):
        r = self.r
        x = r.random()
        if x < 0.4:
            return S.T(r.choice(SCALARS))
        if x < 0.5:
            return S.T('string')
        if x < 0.6 and self.f['eigen']:
            return S.T(r.choice(['Vector', 'Matrix', 'Point2', 'Point3']), ('gtsam',) if r.random() < 0.5 else ())
        if x < 0.6 and self.f['stl_vector'] and not in_pair:
            return S.T('vector', ('std',), (S.T(r.choice(['int', 'double', 'string'])),))
        if x < 0.7 and self.f['enums'] and (not in_pair or self.f['enum_in_pair']):
            es = self.visible_enums()
            if es:
                e = r.choice(es)
                t = self.enum_type(e)
                if self.target == 'matlab' and self.f['partly_qualified_enum_returns'] and e['cls'] is None and e['ns'] and \
                        self.cur_class is not None and e['ns'] == self.cur_ns and r.random() < 0.4:
                    # a *return* type written the way C++ allows inside the enum's namespace: unqualified or qualified
                    # by the inner namespaces only (`Level level() const;` in namespace arm)
                    k = r.randint(1, len(e['ns']))
                    t = S.T(t.name, tuple(e['ns'][k:]), (), t.const, t.marker)
                return t
        cs = self.visible_classes()
        if in_pair:
            cs = [(c, t) for c, t in cs if not t.args]     # pair halves are plain (non-templated) types in the grammar
        if cs:
            c, t = r.choice(cs)
            if r.random() < 0.5 and self.f['shared_ptr']:
                return S.T(t.name, t.ns, t.args, False, '*')
            if c['copyable'] and not in_pair and self.f['ref_returns'] and r.random() < 0.35:
                # returned by (const) reference: the wrappers hand a copy to the caller
                return S.T(t.name, t.ns, t.args, r.random() < 0.5, '&')
            if c['copyable']:
                return t
            return S.T(t.name, t.ns, t.args, False, '*')
        return S.T(r.choice(SCALARS))

    def default_for(self, t):
        r = self.r
        if t.marker in ('&',) and not t.const:
            return None
        if t.marker in ('*', '@'):
            return None
        if t.args:
            if t.name == 'vector':
                inner = t.args[0].name
                if inner not in ('int', 'double', 'string'):
                    return None
                return {'int': 'std::vector<int>{1, 2, 3}', 'double': 'std::vector<double>{0.5, 1.5}',
                        'string': 'std::vector<string>{"a", "b"}'}[inner]
            return None
        n = t.name
        if not t.ns and n in ('int', 'size_t'):
            return str(r.choice([0, 1, 7, 42, 100]))
        if not t.ns and n == 'double':
            return r.choice(['0.5', '1.5', '-2.25', '1e-3', '3.0', '1.0  +  0.5'] + (['(2.0 *\n 1.25)'] if self.target == 'pybind' else []))
        if not t.ns and n == 'bool':
            return r.choice(['true', 'false'])
        if not t.ns and n == 'char':
            return r.choice(["'a'", "'z'", "'7'"])
        if not t.ns and n == 'unsigned char':
            return r.choice(['5', '200'])
        if not t.ns and n == 'string':
            return r.choice(['"hello"', '"a b"', '""', '"x,y"', '"semi;colon"', '"two  blanks"', '"tab\there"'])
        if n in ('Vector', 'Matrix', 'Point2', 'Point3'):
            return None
        for e in self.enums:
            if self.enum_type(e) == t.bare():
                if e.get('templated'):
                    return None
                if e['cls'] is not None and not self.f['class_enum_default']:
                    return None
                return '::'.join(t.ns + (t.name, r.choice(e['vals'])))
        for c in self.classes:
            if c['name'] == n and c['ns'] == t.ns and c['default_ctor'] and c['copyable'] and c['template'] is None:
                return '::'.join(t.ns + (t.name,)) + '()'
        return None

    def args(self, maxn=None, tparams=()):
        r = self.r
        if self._sigs and self.f['defaults'] and r.random() < self.f['twin_signatures']:
            # the parameter list (types and names) of an earlier callable, with defaults drawn afresh: two callables
            # that differ in nothing but their default values
            base = r.choice(self._sigs)
            if maxn is None or len(base) <= maxn:
                out = [[t, nm, None] for t, nm in base]
                k = r.randint(1, len(out))
                for a in reversed(out[-k:]):
                    d = self.default_for(a[0])
                    if d is None:
                        break
                    a[2] = d
                return tuple(S.Arg(t, nm, d) for t, nm, d in out)
        n = r.randint(0, maxn if maxn is not None else self.k.params)
        out = []
        for i in range(n):
            t = self.arg_type()
            if tparams and not t.args and not t.ns and t.name in SCALARS and r.random() < 0.5:
                t = S.T(r.choice(tparams), (), (), t.const, t.marker)
                if self.f['stl_vector'] and self.f['tparam_in_vector'] and r.random() < 0.35:
                    # the parameter nested one level inside a template argument
                    t = S.T('vector', ('std',), (S.T(t.name),), r.random() < 0.5, r.choice(['', '&']))
                    if t.marker == '&':
                        t = S.T(t.name, t.ns, t.args, True, '&')
            nm = self.pname()
            if nm in [x[1] for x in out]:
                nm = self.lname()
            out.append([t, nm, None])
        # defaults form a suffix of the parameter list
        if self.f['defaults'] and out and r.random() < 0.5:
            k = r.randint(1, len(out))
            for a in reversed(out[-k:]):
                d = None if (a[0].name in tparams and not a[0].ns) else self.default_for(a[0])
                if d is None:
                    break
                a[2] = d
        if len(out) >= 2 and out[-1][2] is not None and out[0][2] is None and r.random() < self.f['substring_param_names'] \
                and out[-1][1] not in PY_RESERVED_CPP_OK + ['None', 'global', 'yield']:
            out[0][1] = out[-1][1] + r.choice(['s', 'Count', '_0'])       # rows / row
        if out and not tparams and all(not t.ns and not t.args and t.name in SCALARS + ['string'] and not t.marker
                                       for t, _, _ in out):
            self._sigs.append([(t, nm) for t, nm, _ in out])
        return tuple(S.Arg(t, nm, d) for t, nm, d in out)

    # ------------------------------------------------------------ declarations
    def enum(self, cls=None):
        name = self.uname()
        if cls is not None and self.r.random() < self.f['enum_namesakes']:
            # class-scoped enums of different classes may share their simple name
            taken = {e['name'] for e in self.enums if e['cls'] == cls and e['ns'] == self.cur_ns}
            taken |= {e['name'] for e in self.enums if e['cls'] is None}     # (namespace-level names stay unique)
            cand = sorted({e['name'] for e in self.enums if e['cls'] not in (None, cls)} - taken)
            if cand:
                name = self.r.choice(cand)
        vals = [self.name(self.r.choice(['A', 'B', 'red', 'Dog', 'k'])) for _ in range(self.r.choice([1, 2, 3, 5]))]
        scoped = self.r.random() < 0.5
        if scoped and self.r.random() < 2 * self.f['keyword_enumerators']:
            # enumerators that are keywords of the target language but fine C++ identifiers (scoped enums only: in an
            # unscoped enum they would share their scope with functions and members that carry such names)
            kw = ['None', 'pass', 'in', 'from', 'yield', 'global', 'is'] if self.target == 'pybind' else \
                ['end', 'global', 'function', 'otherwise', 'persistent', 'elseif', 'parfor']
            kw = [k for k in kw if k not in self._kw_used]      # (unscoped enums share their scope: each keyword once)
            if kw:
                k = self.r.choice(kw)
                self._kw_used.add(k)
                vals.insert(self.r.randint(0, len(vals)), k)
        vals = tuple(vals)
        kw = 'enum class' if scoped else 'enum'
        self.enums.append({'ns': self.cur_ns, 'cls': cls, 'name': name, 'vals': vals, 'kw': kw,
                           'templated': bool(cls and self.cur_templated)})
        return S.Enum(name, vals, kw)

    def klass(self):
        r = self.r
        f = self.f
        name = self.uname()
        tmpl = None
        insts = None
        if f['templates'] and r.random() < 0.25:
            pool = [S.T('int'), S.T('double'), S.T('size_t'), S.T('bool')] + ([S.T('string')] if self.target == 'pybind' else [])
            pool += [t for c, t in self.visible_classes() if c['template'] is None and c['copyable'] and c['default_ctor']][:3]
            np_ = r.choice([1, 1, 2])
            params = []
            for i in range(np_):
                lst = r.sample(pool, min(len(pool), r.choice([1, 2, 3])))
                # distinct instantiated names
                seen = set()
                lst = [t for t in lst if not (t.name.lower() in seen or seen.add(t.name.lower()))]
                params.append(S.TParam(['T', 'U', 'POSE'][i], tuple(lst)))
            tmpl = tuple(params)
            import itertools
            insts = list(itertools.product(*[p.insts for p in tmpl]))
        virtual = False
        base = None
        base_assignable = True
        cands = [(c, t) for c, t in self.visible_classes() if c['template'] is None]
        if f['inheritance'] and cands and r.random() < 0.35:
            vc = [(c, t) for c, t in cands if c['virtual'] or f['nonvirtual_inheritance']]
            if vc:
                bc, base = r.choice(vc)
                # DOCS.md asks for `virtual` on both; the tool also accepts a non-virtual chain
                virtual = True if bc['virtual'] else (r.random() < 0.3)
                base_assignable = bc.get('assignable', True)
        if base is None and r.random() < 0.3:
            virtual = True
        rec = {'ns': self.cur_ns, 'name': name, 'template': tmpl, 'insts': insts, 'virtual': virtual,
               'base': base, 'default_ctor': False, 'copyable': True, 'enums': [], 'abstract': False,
               'assignable': base_assignable}
        self.cur_class = name
        self.cur_templated = tmpl is not None
        members = []
        # class enums first (so that members can use them)
        if f['class_enums'] and f['enums'] and r.random() < 0.3 and \
                (f['nested_ns_class_enum'] or len(self.cur_ns) < 2):
            for _ in range(r.choice([1, 1, 2])):
                members.append(self.enum(cls=name))
        tparams = [p.name for p in (tmpl or ())]

        def with_tparams(t):
            # occasionally replace a scalar type by a class template parameter
            if tparams and not t.args and not t.ns and t.name in SCALARS and r.random() < 0.5:
                return S.T(r.choice(tparams), (), (), t.const, t.marker)
            return t

        def margs(maxn=None):
            return self.args(maxn, tparams)
        # constructors
        nctor = r.choice([0, 1, 1, 2, 3])
        arities = set()
        for _ in range(nctor):
            a = margs()
            sig = tuple(range(len(a) - sum(1 for x in a if x.default is not None), len(a) + 1))
            if arities & set(sig):
                continue
            arities |= set(sig)
            members.append(S.Ctor(name, a))
            if len(a) == 0:
                rec['default_ctor'] = True     # a real zero-argument constructor (the library has no defaults)
        if nctor == 0:
            rec['default_ctor'] = False
        used_names = {}
        for _ in range(r.randint(0, self.k.members)):
            kinds = ['method', 'method', 'method']
            if f['statics']:
                kinds.append('static')
            if f['properties']:
                kinds.append('prop')
            if f['operators']:
                kinds.append('op')
            k = r.choice(kinds)
            if k == 'method':
                nm = self.member_name('method')
                if f['overloads'] and used_names and r.random() < 0.25:
                    nm = r.choice([n for n, kk in used_names.items() if kk == 'method'] or [nm])
                a = margs()
                same_const_as = None
                if self.target == 'matlab' and f['same_arity_overloads'] and nm in used_names and r.random() < 0.6:
                    # an overload of the same arity as an existing one, told apart by the type test of one parameter
                    prev = [m for m in members if m.k == 'Method' and m.name == nm and m.args and
                            all(x.default is None for x in m.args)]
                    if prev:
                        b = r.choice(prev)
                        i = r.randrange(len(b.args))
                        other = {'num': ['string', 'bool', 'char'], 'char': ['double', 'bool', 'int'],
                                 'logical': ['double', 'string', 'size_t']}.get(self._family(b.args[i].type))
                        if other:
                            a = tuple(S.Arg(S.T(r.choice(other)) if j == i else x.type, self.lname(), None)
                                      for j, x in enumerate(b.args))
                            if r.random() < 0.5:
                                # ... plus a defaulted parameter: the shortened form has the arity of the other overload
                                extra = S.T(r.choice(['double', 'int', 'bool']))
                                a = a + (S.Arg(extra, self.lname(), self.default_for(extra)),)
                            same_const_as = b.const     # (C++ overload resolution must not depend on the receiver's constness)
                if f['this_types'] and r.random() < 0.15:
                    # the class itself as parameter type, spelled `This` (by reference, const reference or shared pointer)
                    q = r.choice([(False, '&'), (True, '&'), (False, '*')])
                    a = (S.Arg(S.T('This', (), (), q[0], q[1]), self.lname(), None),) + tuple(a)
                ret = self.ret_type()
                if tparams and ret.k == 'T' and not ret.args and not ret.ns and ret.name in SCALARS and r.random() < 0.4:
                    ret = S.T(r.choice(tparams))
                if nm in ('serialize', 'serializable'):
                    a, ret = (), S.VOID
                if nm == 'print':
                    ret = S.VOID
                    a = tuple(x for x in a if x.type.name in SCALARS + ['string'])[:1]
                    if not f['print_required_arg']:
                        # D51: __repr__ takes print's parameters; with a required one repr(obj) cannot be called, and
                        # pybind11 calls it for every default value of the class type while the module is imported
                        a = tuple(S.Arg(x.type, x.name, x.default if x.default is not None else self.default_for(x.type.bare()))
                                  for x in a)
                        a = tuple(x for x in a if x.default is not None)
                mt = None
                if r.random() < f['member_template_p'] and nm not in used_names and \
                        nm not in ('print', 'serialize', 'serializable') and nm not in PY_RESERVED_CPP_OK + IPY:
                    mt = self.member_template(tparams)
                    a, ret = self._use_member_param(a, ret, mt[0].name)
                    if ret.k == 'Pair' and not f['templated_method_pair']:
                        ret = S.T('double')
                # (only the overloads built on purpose - same constness, one parameter of another family - may share an
                # arity with an existing one: random pairs could be ambiguous for the C++ compiler)
                self._directed = same_const_as is not None
                ok = self._arity_ok(used_names, members, nm, a, 'Method')
                self._directed = False
                if not ok:
                    continue
                used_names[nm] = 'method' if mt is None else 'templated'
                const = True if (nm == 'print' and not f['nonconst_print']) else r.random() < 0.6
                if same_const_as is not None:
                    const = same_const_as
                members.append(S.Method(nm, ret, a, const, mt))
            elif k == 'static':
                nm = self.member_name('static')
                a = margs()
                ret = self.ret_type(allow_pair=f['static_void_or_pair'], allow_void=f['static_void_or_pair'])
                if f['this_types'] and r.random() < 0.2:
                    ret = S.T('This')
                if nm in used_names:
                    continue
                mt = None
                if f['templated_static'] and r.random() < f['member_template_p'] and nm not in PY_RESERVED_CPP_OK + IPY:
                    mt = self.member_template(tparams)
                    a, ret = self._use_member_param(a, ret, mt[0].name)
                used_names[nm] = 'static'
                members.append(S.Static(nm, ret, a, mt))
            elif k == 'prop':
                t = self.arg_type()
                if t.marker in ('&', '@') or (t.marker == '*' and not f['ptr_property']):
                    t = t.bare()
                if t.name == 'vector' or (t.const and self.target != 'pybind'):
                    t = S.T(t.name, t.ns, t.args, False, '')
                if t.const:
                    rec['assignable'] = False
                if not t.const and not t.marker:
                    # a read-write property of class type needs an assignable class
                    owner = next((c for c in self.classes if c['name'] == t.name and c['ns'] == t.ns), None)
                    if owner is not None and not owner.get('assignable', True):
                        continue
                # properties of class type need the class to be copy-assignable: fine for generated classes
                nm = self.lname()
                members.append(S.Prop(t, nm))
            elif k == 'op':
                op = r.choice(['+', '-', '*', '==', '!=', '<', '<=', '>', '>=', '[]', '()', 'u-', 'u+'])
                if any(m.k == 'Op' and m.op == '==' for m in members) and r.random() < 0.5:
                    op = '!='            # both == and != declared
                if any(m.k == 'Op' and m.op == op.replace('u', '') and (not m.args) == op.startswith('u') for m in members):
                    continue        # (the unary and the binary form of one symbol may both be declared)
                me = S.T(name, self.cur_ns) if not tmpl else S.T('This')
                if tmpl:
                    continue
                if op in ('u-', 'u+'):
                    if any(m.k == 'Op' and m.op == op[1] and not m.args for m in members):
                        continue
                    members.append(S.Op(op[1], me, ()))
                elif op in ('[]', '()'):
                    members.append(S.Op(op, S.T(r.choice(['int', 'double'])), (S.Arg(S.T(r.choice(['int', 'size_t'])), self.lname()),)))
                else:
                    members.append(S.Op(op, me, (S.Arg(S.T(name, self.cur_ns, (), True, '&'), self.lname()),)))
        if f['dunders'] and r.random() < 0.25:
            # container protocol: the library class iterates over the integers 3, 5, 8
            for nm in r.sample(['len', 'contains', 'iter'], r.choice([1, 2, 3])):
                members.append(S.Dunder(nm, (S.Arg(S.T(r.choice(['int', 'size_t'])), self.lname(), None),) if nm == 'contains' else ()))
        self.cur_class = None
        if r.random() < f['serialize_p'] and not any(m.k == 'Method' and m.name in ('serialize', 'serializable') for m in members):
            members.append(S.Method('serialize', S.VOID, (), r.random() < 0.5))
        if any(m.k == 'Method' and m.name in ('serialize', 'serializable') for m in members) and not rec['default_ctor']:
            # DOCS.md: serialize() requires a publicly accessible default constructor (the generated pickle support
            # needs one for serializable() as well although DOCS.md says otherwise: known finding D43)
            # (a constructor whose parameters all have defaults would make the zero-argument call ambiguous)
            members = [S.Ctor(m.name, (S.Arg(m.args[0].type, m.args[0].name, None),) + tuple(m.args[1:]), m.template)
                       if (m.k == 'Ctor' and m.args and all(a.default is not None for a in m.args)) else m
                       for m in members]
            members.insert(0, S.Ctor(name, ()))
            rec['default_ctor'] = True
        self.classes.append(rec)
        return S.Class(name, tuple(members), tmpl, virtual, base)

    def member_template(self, taken=()):
        """one template parameter with an instantiation list for a method / static method / free function"""
        r = self.r
        pool = [S.T('int'), S.T('double'), S.T('size_t'), S.T('bool')] + ([S.T('string')] if self.target == 'pybind' else [])
        pool += [t for c, t in self.visible_classes() if c['template'] is None and c['copyable'] and c['default_ctor']][:3]
        if self.f['stl_vector']:
            # an instantiation value that is itself a template-id
            pool.append(S.T('vector', ('std',), (S.T(r.choice(['int', 'double'])),)))
        lst = r.sample(pool, min(len(pool), r.choice([1, 2, 2, 3])))
        seen = set()
        lst = [t for t in lst if not (t.name.lower() in seen or seen.add(t.name.lower()))]
        pname = next(n for n in ('V', 'W', 'ARG', 'V2') if n not in taken)
        return (S.TParam(pname, tuple(lst)),)

    def _use_member_param(self, a, ret, pname):
        """make the member-level parameter occur: in scalar argument positions and / or as the return type; it may
        also occur nowhere (then only the explicit template argument tells the instantiations apart)"""
        r = self.r
        out = []
        for x in a:
            t = x.type
            if not t.args and not t.ns and t.name in SCALARS and r.random() < 0.5:
                out.append(S.Arg(S.T(pname, (), (), t.const, t.marker), x.name, None))
            else:
                out.append(x)
        # defaults must stay a suffix
        seen_nodefault = False
        fixed = []
        for x in reversed(out):
            if x.default is None:
                seen_nodefault = True
            fixed.append(S.Arg(x.type, x.name, None) if seen_nodefault else x)
        out = tuple(reversed(fixed))
        if ret.k == 'T' and not ret.args and not ret.ns and ret.name in SCALARS and r.random() < 0.4:
            ret = S.T(pname)
        return out, ret

    def _family(self, t):
        """MATLAB-side guard family of a parameter type (values of different families never satisfy each other's test)."""
        if not t.ns and not t.args:
            if t.name in ('double', 'int', 'size_t', 'unsigned char', 'Vector', 'Matrix', 'Point2', 'Point3'):
                return 'num'
            if t.name in ('char', 'string'):
                return 'char'
            if t.name == 'bool':
                return 'logical'
        if t.name in ('Vector', 'Matrix', 'Point2', 'Point3'):
            return 'num'
        for e in self.enums:
            if self.enum_type(e) == t.bare():
                return 'enum'          # (all enums one family: enumeration values are passed as their class)
        return 'object'                # classes may be related by inheritance: one family

    def _told_apart_by_type(self, a, b):
        """two parameter lists of equal length without defaults that differ in the guard family of one position"""
        if self.target != 'matlab' or not self.f['same_arity_overloads'] or not a or not b or not self._directed:
            return False
        fa, fb = [self._family(x.type) for x in a], [self._family(x.type) for x in b]

        def arities(x):
            return set(range(len(x) - sum(1 for y in x if y.default is not None), len(x) + 1))
        common = arities(a) & arities(b)
        if 0 in common:
            return False
        # every arity both offer (directly or by omitting defaults) must be decided by one parameter's type test
        return all(any(p != q and 'object' not in (p, q) and 'enum' not in (p, q) for p, q in zip(fa[:m], fb[:m]))
                   for m in common)

    def _arity_ok(self, used, members, nm, a, kind):
        """overloads of one name must have disjoint arity sets (so that dispatch is unambiguous), or - in the MATLAB
        universe - be told apart by the type test of one parameter."""
        mine = set(range(len(a) - sum(1 for x in a if x.default is not None), len(a) + 1))
        for m in members:
            if m.k == kind and m.name == nm:
                theirs = set(range(len(m.args) - sum(1 for x in m.args if x.default is not None), len(m.args) + 1))
                if mine & theirs and not self._told_apart_by_type(a, m.args):
                    return False
        if nm in used and used[nm] != kind.lower():
            return False
        return True

    def func(self, existing):
        nm = self.member_name('function') if self.r.random() < 0.8 else self.lname()
        a = self.args()
        ret = self.ret_type()
        for fn in existing:
            if fn.name == nm:
                mine = set(range(len(a) - sum(1 for x in a if x.default is not None), len(a) + 1))
                theirs = set(range(len(fn.args) - sum(1 for x in fn.args if x.default is not None), len(fn.args) + 1))
                if mine & theirs:
                    return None
        if self.f['templated_func'] and self.r.random() < self.f['member_template_p'] and \
                not any(fn.name == nm for fn in existing) and nm not in PY_RESERVED_CPP_OK + IPY:
            mt = self.member_template()
            a, ret = self._use_member_param(a, ret, mt[0].name)
            return S.Func(nm, ret, a, mt)
        return S.Func(nm, ret, a)

    def namespace_items(self, depth):
        r = self.r
        items = []
        subs_first = r.random() < 0.3

        def subs():
            out = []
            if depth < self.k.ns_depth:
                for _ in range(r.randint(0, self.k.namespaces)):
                    nm = self.name(r.choice(['ns', 'geo', 'nav', 'inner', 'constants']))
                    saved = self.cur_ns
                    self.cur_ns = saved + (nm,)
                    sub = self.namespace_items(depth + 1)
                    self.cur_ns = saved
                    out.append(S.Namespace(nm, tuple(sub)))
            return out
        if subs_first:
            items += subs()
        if self.f['enums']:
            for _ in range(r.randint(0, self.k.enums)):
                items.append(self.enum())
        ncls = r.randint(1, self.k.classes)
        funcs = []
        for i in range(ncls):
            items.append(self.klass())
            c = items[-1]
            if self.f['typedefs'] and self.target == 'pybind' and c.template and r.random() < 0.4:
                # one further instantiation through a typedef, with arguments that are not in the lists
                # (char / unsigned char are never list elements here), declared after the template
                targs = tuple(S.T(r.choice(['unsigned char', 'char'])) if j == 0 else r.choice(p.insts)
                              for j, p in enumerate(c.template))
                items.append(S.Typedef(S.T(c.name, self.cur_ns, targs), self.uname()))
            if self.f['functions'] and r.random() < 0.4:
                fn = self.func(funcs)
                if fn:
                    funcs.append(fn)
                    items.append(fn)
        if self.f['functions']:
            for _ in range(r.randint(0, self.k.funcs)):
                fn = self.func(funcs)
                if fn and (r.random() < 0.3 and funcs and self.f['overloads']):
                    # overload of an existing name with a different arity
                    base = r.choice(funcs)
                    fn2 = S.Func(base.name, fn.ret, fn.args)
                    if not base.template and not fn.template and self._func_arity_ok(funcs, fn2):
                        fn = fn2
                if fn and self._func_arity_ok(funcs, fn):
                    funcs.append(fn)
                    items.append(fn)
        if self.f['variables'] and r.random() < 0.5:
            t = S.T(r.choice(['double', 'int', 'bool']), (), (), True)
            d = self.default_for(t.bare())
            if self.cur_ns and not self.f['ns_var_default']:
                d = None
            items.append(S.Var(t, self.name('kConst'), d))
        if not subs_first:
            items += subs()
        return items

    def _func_arity_ok(self, funcs, fn):
        mine = set(range(len(fn.args) - sum(1 for x in fn.args if x.default is not None), len(fn.args) + 1))
        for g in funcs:
            if g.name == fn.name:
                theirs = set(range(len(g.args) - sum(1 for x in g.args if x.default is not None), len(g.args) + 1))
                if mine & theirs and not self._told_apart_by_type(fn.args, g.args):
                    return False
        return True

    def reopen(self, items):
        out = []
        for it in items:
            if it.k != 'Namespace':
                out.append(it)
                continue
            sub = self.reopen(it.items)
            if len(sub) >= 2 and self.r.random() < self.f['reopen_ns']:
                cut = self.r.randint(1, len(sub) - 1)
                names = lambda part: {x.name for x in part if x.k == 'Func'}
                if self.target == 'matlab' and not self.f['enum_other_scope'] and any(x.k == 'Enum' for x in sub):
                    # D31: the MATLAB generator recognises a namespace-level enum only in the namespace block that
                    # declares it
                    out.append(S.Namespace(it.name, tuple(sub)))
                    continue
                if self.target == 'matlab' and not self.f['split_overloads'] and names(sub[:cut]) & names(sub[cut:]):
                    # D50: the MATLAB generator writes one function file per namespace *block*; overloads of one
                    # name in two blocks of the same namespace overwrite each other
                    out.append(S.Namespace(it.name, tuple(sub)))
                    continue
                # adjacent blocks: the declaration order (bases before derived classes) is unchanged
                out.append(S.Namespace(it.name, tuple(sub[:cut])))
                out.append(S.Namespace(it.name, tuple(sub[cut:])))
            else:
                out.append(S.Namespace(it.name, tuple(sub)))
        return out

    def module(self):
        items = self.namespace_items(0)
        if self.f['reopen_ns']:
            items = self.reopen(items)
        return S.Module(tuple(items))
