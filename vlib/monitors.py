"""Monitors attached to the real gtwrap functions from the harness (no source edits).

* icontract post-conditions (named condition functions, recording instead of raising)
* parse-step counter on pyparsing.ParserElement._parseNoCache
* sys.addaudithook file-system recorder
"""
import sys

import icontract

from . import project, ref_inst
from . import spec as S


class Recorder:
    def __init__(self):
        self.evaluations = {}
        self.failures = []

    def hit(self, name):
        self.evaluations[name] = self.evaluations.get(name, 0) + 1

    def fail(self, name, detail):
        self.failures.append((name, detail))

    def reset(self):
        self.evaluations = {}
        self.failures = []


REC = Recorder()


# ------------------------------------------------------------------ instantiate_type contract
def _this_from(cpp_typename):
    if not cpp_typename:
        return None
    return S.T(str(cpp_typename.name), tuple(str(x) for x in cpp_typename.namespaces))


def _flagged_use(t, names):
    """constructs for which the pinned tool is known to deviate (see known_findings.json);
    the contract still evaluates them but reports them under a separate name."""
    for depth, how in ref_inst.param_depths(t, set(names) | {'This'}):
        if how == 'exact' and depth >= 2:
            return 'deep-param'
        if how == 'scoped' and depth >= 1:
            return 'deep-scoped'
        if how == 'this' and depth >= 1:
            return 'this-in-args'
        if how == 'this-scoped' and depth >= 2:
            return 'deep-this-scoped'
    return None


def instantiate_type_post(ctype, template_typenames, instantiations, cpp_typename, result, OLD):
    REC.hit('instantiate_type')
    try:
        t = OLD.model
        names = [str(x) for x in template_typenames]
        env = {n: project.p_typename(i) if hasattr(i, 'namespaces') else S.T(str(i))
               for n, i in zip(names, instantiations)}
        this = _this_from(cpp_typename)
        exp = ref_inst.subst(t, env, this)
        got = result.to_cpp()
        want = ref_inst.cpp(exp)
        if _norm_this(got, this) != _norm_this(want, this):
            REC.fail('instantiate_type', {'input': ref_inst.cpp(t), 'params': names,
                                          'args': [ref_inst.cpp_typename(env[n]) for n in names if n in env],
                                          'expected': want, 'actual': got,
                                          'flag': _flagged_use(t, names)})
        # the argument object must not have been modified (deep copy discipline)
        if OLD.spelling != ctype.to_cpp():
            REC.fail('instantiate_type.input_mutated', {'before': OLD.spelling, 'after': ctype.to_cpp()})
    except Exception as e:  # never let the monitor disturb the run
        REC.fail('instantiate_type.monitor_error', {'error': '%s: %s' % (type(e).__name__, e)})
    return True


def _norm_this(s, this):
    """`This` may be spelled with or without the class's namespaces; compare modulo that."""
    if this is None or not this.ns:
        return s
    q = '::'.join(this.ns) + '::' + this.name
    return s.replace(q, this.name)


def _snap_model(ctype):
    return project.p_type(ctype)


def _snap_spelling(ctype):
    return ctype.to_cpp()


def instantiate_name_post(original_name, instantiations, result):
    REC.hit('instantiate_name')
    try:
        want = original_name + ref_inst.inst_suffix([project.p_typename(i) for i in instantiations])
        if want != result:
            REC.fail('instantiate_name', {'original': original_name, 'expected': want, 'actual': result})
    except Exception as e:
        REC.fail('instantiate_name.monitor_error', {'error': '%s: %s' % (type(e).__name__, e)})
    return True


class ContractBroken(Exception):
    pass


_installed = {}


def install_instantiator_contracts():
    """Wrap helpers.instantiate_type / instantiate_name and rebind every importer."""
    if _installed.get('inst'):
        return
    import gtwrap.template_instantiator as ti
    from gtwrap.template_instantiator import helpers
    orig_type = helpers.instantiate_type
    orig_name = helpers.instantiate_name
    wrapped_type = icontract.snapshot(_snap_model, name='model')(
        icontract.snapshot(_snap_spelling, name='spelling')(
            icontract.ensure(instantiate_type_post, error=ContractBroken)(orig_type)))
    wrapped_name = icontract.ensure(instantiate_name_post, error=ContractBroken)(orig_name)
    n = 0
    for modname, mod in list(sys.modules.items()):
        if not modname.startswith('gtwrap'):
            continue
        if getattr(mod, 'instantiate_type', None) is orig_type:
            setattr(mod, 'instantiate_type', wrapped_type)
            n += 1
        if getattr(mod, 'instantiate_name', None) is orig_name:
            setattr(mod, 'instantiate_name', wrapped_name)
            n += 1
    _installed['inst'] = n
    return n


# ------------------------------------------------------------------ parse-step counter
class StepBudgetExceeded(Exception):
    pass


class StepCounter:
    """Counts grammar-rule applications (ParserElement._parseNoCache calls that are not served
    from the packrat cache).  Deterministic for a given input and pyparsing version."""

    def __init__(self):
        self.steps = 0
        self.cap = None
        self._orig = None

    def install(self):
        import pyparsing
        if self._orig is not None:
            return
        pe = pyparsing.ParserElement
        orig = pe._parseNoCache
        counter = self

        def counted(self_, instring, loc, doActions=True, callPreParse=True):
            counter.steps += 1
            if counter.cap is not None and counter.steps > counter.cap:
                raise StepBudgetExceeded(counter.steps)
            return orig(self_, instring, loc, doActions, callPreParse)
        self._orig = orig
        self._counted = counted
        pe._parseNoCache = counted
        # packrat replaced ParserElement._parse by _parseCache at import of gtwrap; that one
        # calls self._parseNoCache (looked up on the instance's class), so patching the class
        # attribute is enough.  Without packrat _parse *is* _parseNoCache: rebind as well.
        if pe._parse is orig:
            pe._parse = counted
            self._rebound_parse = True
        else:
            self._rebound_parse = False

    def measure(self, fn, cap=None):
        self.steps = 0
        self.cap = cap
        try:
            return fn(), self.steps
        finally:
            self.cap = None


STEPS = StepCounter()


# ------------------------------------------------------------------ audit hook (file system)
class FsAudit:
    """Records open()/mkdir/rename/remove events raised by the interpreter while active."""

    def __init__(self):
        self.active = False
        self.events = []
        self._installed = False

    def _hook(self, event, args):
        if not self.active:
            return
        if event == 'open':
            path, mode, flags = args
            if isinstance(path, (str, bytes)):
                self.events.append(('open', str(path), mode if isinstance(mode, str) else str(flags)))
        elif event in ('os.mkdir', 'os.rename', 'os.remove', 'os.rmdir', 'os.truncate', 'shutil.rmtree'):
            self.events.append((event, str(args[0]), ''))

    def install(self):
        if not self._installed:
            sys.addaudithook(self._hook)
            self._installed = True

    def __enter__(self):
        self.install()
        self.events = []
        self.active = True
        return self

    def __exit__(self, *a):
        self.active = False

    def writes(self):
        out = []
        for ev, path, mode in self.events:
            if ev == 'open':
                if any(c in mode for c in 'wax+'):
                    out.append(path)
            else:
                out.append(path)
        return out

    def creates(self):
        """files opened for writing and directories created (absolute paths only: events raised with a
        dir_fd, e.g. by the harness' own rmtree, carry bare names and are not the tool's)"""
        out = []
        for ev, path, mode in self.events:
            if not path.startswith('/'):
                continue
            if ev == 'open' and any(c in mode for c in 'wax+'):
                out.append(path)
            elif ev in ('os.mkdir', 'os.rename'):
                out.append(path)
        return out

    def reads(self):
        return [p for ev, p, mode in self.events if ev == 'open' and not any(c in mode for c in 'wax+')]


FS = FsAudit()
