"""MATLAB toolbox observation: run the real generator, parse every emitted file, list call sites."""
import re
from . import mlab, tool


class Toolbox:
    def __init__(self, text, module='modx', ignore=(), ser=False):
        self.module = module
        self.raw, self.wrapper = tool.matlab_tree(text, module=module, ignore=ignore, ser=ser)
        self.m = {}
        self.cpp = None
        self.cpp_files = []
        for path, content in self.raw.items():
            if path.endswith('.cpp'):
                self.cpp_files.append(path)
                if path == module + '_wrapper.cpp':
                    self.cpp = mlab.parse_cpp(content)
            elif path.endswith('.m'):
                self.m[path] = mlab.parse_m(content, module)
        self.sites = self._sites()

    def _sites(self):
        """every gateway call site with its context."""
        out = []
        for path, p in sorted(self.m.items()):
            parts = path.split('/')
            pkgs = [x[1:] for x in parts[:-1]]
            if p['kind'] == 'class':
                cls = ''.join(pkgs) + p['name']
                ctx = {'file': path, 'class': p['name'], 'pkgs': pkgs, 'collector': cls}
                c = p['ctor']
                if c and c['pointer']:
                    if c['pointer']['collector_id'] is not None:
                        out.append(dict(ctx, role='collector', id=c['pointer']['collector_id'], arity=1,
                                        returns_base=c['pointer']['returns_base']))
                    if c['pointer']['upcast_id'] is not None:
                        out.append(dict(ctx, role='upcast', id=c['pointer']['upcast_id'], arity=1))
                for o in (c['overloads'] if c else []):
                    if 'id' in o:
                        out.append(dict(ctx, role='constructor', id=o['id'], arity=o['arity'], guards=o['guards'],
                                        sizes=o['sizes'], lhs=o.get('lhs'), passed=len(o.get('args', []))))
                if p['delete']:
                    out.append(dict(ctx, role='deconstructor', id=p['delete']['id'], arity=1, args=p['delete']['args']))
                for name, brs in p['methods'].items():
                    for o in brs:
                        if 'id' in o:
                            out.append(dict(ctx, role='method', member=name, id=o['id'], arity=o['arity'],
                                            guards=o['guards'], sizes=o['sizes'], lhs=o.get('lhs')))
                for name, brs in p['statics'].items():
                    for o in brs:
                        if 'id' in o:
                            out.append(dict(ctx, role='static', member=name, id=o['id'], arity=o['arity'],
                                            guards=o['guards'], sizes=o['sizes'], lhs=o.get('lhs')))
                for name, acc in p['accessors'].items():
                    if acc.get('get'):
                        out.append(dict(ctx, role='get', member=name, id=acc['get']['id'], arity=0))
                    if acc.get('set'):
                        out.append(dict(ctx, role='set', member=name, id=acc['set']['id'], arity=1))
                if p.get('serialize'):
                    out.append(dict(ctx, role='serialize', id=p['serialize']['id'], arity=0))
            elif p['kind'] == 'function':
                for o in p['overloads']:
                    if 'id' in o:
                        out.append({'file': path, 'pkgs': pkgs, 'role': 'function', 'member': p['name'], 'id': o['id'],
                                    'arity': o['arity'], 'guards': o['guards'], 'sizes': o['sizes'], 'lhs': o.get('lhs')})
        # ids used in files but not recognised by the structured parse (e.g. string_deserialize)
        known = {s['id'] for s in out}
        for path, content in self.raw.items():
            if path.endswith('.m'):
                for i in mlab.call_sites(content, self.module):
                    if i not in known:
                        out.append({'file': path, 'role': 'other', 'id': i, 'arity': None})
                        known.add(i)
        return out

    def all_ids_in_m(self):
        ids = []
        for path, content in self.raw.items():
            if path.endswith('.m'):
                ids += mlab.call_sites(content, self.module)
        return ids
