"""Reference model of the MATLAB toolbox: expected file tree, classdef structure, id count, and (for
the execute-universe) guards / unwrap statements / call expressions / return wrapping per arity."""
import re
from . import ref_inst
from . import spec as S

SCALARS = ('bool', 'char', 'unsigned char', 'int', 'size_t', 'double')
EIGEN = ('Vector', 'Matrix', 'Point2', 'Point3')
GUARD = {'bool': 'logical', 'char': 'char', 'unsigned char': 'numeric', 'int': 'numeric', 'size_t': 'numeric',
         'double': 'double', 'string': 'char', 'Vector': 'double', 'Matrix': 'double', 'Point2': 'double',
         'Point3': 'double'}


def pkg(path):
    return '/'.join('+' + p for p in path)


def arities(args):
    n = len(args)
    k = 0
    for a in reversed(args):
        if a.default is None:
            break
        k += 1
    return list(range(n, n - k - 1, -1))


class Expect:
    """expected toolbox for (model, module name, ignore list, serialization flag)."""

    def __init__(self, mod, module='modx', ignore=(), ser=False):
        self.mod = mod
        self.module = module
        self.ignore = set(ignore)
        self.ser = ser
        self.files = {}          # relative path -> descriptor
        self.classes = []        # class descriptors in declaration order
        self.functions = {}      # (path, name) -> [func model instantiations]
        self.nids = 0
        self.enums = {}          # cpp spelling 'ns::E' / 'ns::Cls::E' -> matlab name 'ns.E'
        self._collect_enums(mod.items, ())
        self._walk(mod.items, ())
        self.files[module + '_wrapper.cpp'] = {'kind': 'mex'}

    def _collect_enums(self, items, path):
        for it in items:
            if it.k == 'Namespace':
                self._collect_enums(it.items, path + (it.name,))
            elif it.k == 'Enum':
                self.enums['::'.join(path + (it.name,))] = '.'.join(path + (it.name,))

    def _walk(self, items, path):
        funcs = []
        typedef_funcs = []
        for it in items:
            if it.k == 'Namespace':
                self._walk(it.items, path + (it.name,))
            elif it.k == 'Enum':
                self.files[(pkg(path) + '/' if path else '') + it.name + '.m'] = {
                    'kind': 'enum', 'name': it.name, 'values': list(it.enumerators)}
            elif it.k == 'Class':
                for combo in ref_inst._products(it.template):
                    self._klass(it, path, combo, None)
            elif it.k == 'Typedef':
                tg = ref_inst.find_template(self.mod, it.type.ns, it.type.name)
                if len(tg) == 1 and tg[0].k == 'Class':
                    # instantiated into the typedef's namespace list but named/placed by the template's namespace
                    self._klass(tg[0], tuple(it.type.ns), it.type.args, it.name)
                elif len(tg) == 1 and tg[0].k == 'Func':
                    typedef_funcs.append((tg[0], tuple(it.type.args), it.name))
            elif it.k == 'Func':
                funcs.append(it)
        # free functions: one file per name; ids per overload x arity, in order of first appearance
        byname = {}
        order = []
        for f in funcs:
            for combo in ref_inst._products(f.template):
                name = f.name + ref_inst.inst_suffix(combo)
                if name not in byname:
                    byname[name] = []
                    order.append(name)
                byname[name].append((f, combo))
        for f, combo, name in typedef_funcs:
            if name not in byname:
                byname[name] = []
                order.append(name)
            byname[name].append((f, combo))
        for name in order:
            self.files[(pkg(path) + '/' if path else '') + name + '.m'] = {'kind': 'function', 'name': name,
                                                                           'overloads': byname[name], 'path': path}
            for f, combo in byname[name]:
                self.nids += len(arities(f.args))
        # note: the tool allocates class ids while walking classes first, then the functions of each namespace;
        # only the total count is compared here

    def _klass(self, c, path, combo, new_name):
        name = new_name or (c.name + ref_inst.inst_suffix(combo))
        key = '::'.join(path + (name,))
        if key in self.ignore:
            return
        env = {p.name: i for p, i in zip(c.template or (), combo)}
        this = S.T(c.name, path, tuple(combo) if c.template else ())
        d = {'kind': 'class', 'name': name, 'path': path, 'cpp': ref_inst.cpp_typename(this), 'virtual': c.virtual,
             'base': None, 'ptr': 'ptr_' + ''.join(path) + name, 'collector': ''.join(path) + name,
             'ctors': [], 'methods': {}, 'statics': {}, 'props': [], 'enums': [], 'serialize': False, 'model': c,
             'env': env, 'this': this}
        if c.base is not None:
            b = ref_inst.subst(c.base, env, this)
            d['base'] = ref_inst.cpp_typename(b) if b.args else '::'.join(b.ns + (b.name,))
        ids = 1 + (1 if c.virtual else 0) + 1      # collector (+ upcast) + deconstructor
        for m in c.members:
            if m.k == 'Ctor':
                for mi in ref_inst._products(m.template):
                    menv = dict(env)
                    menv.update({p.name: i for p, i in zip(m.template or (), mi)})
                    d['ctors'].append((m, menv))
                    ids += len(arities(m.args))
            elif m.k == 'Method':
                for mi in ref_inst._products(m.template):
                    menv = dict(env)
                    menv.update({p.name: i for p, i in zip(m.template or (), mi)})
                    nm = m.name + ref_inst.inst_suffix(mi)
                    if m.name == 'serialize' and not m.template:
                        if self.ser:
                            d['serialize'] = True
                            ids += 2      # string_serialize + string_deserialize
                        continue
                    if m.name == 'serializable' and not m.template:
                        continue
                    if nm == 'pickle':
                        continue
                    d['methods'].setdefault(nm, []).append((m, menv, mi))
                    ids += len(arities(m.args))
            elif m.k == 'Static':
                for mi in ref_inst._products(m.template):
                    menv = dict(env)
                    menv.update({p.name: i for p, i in zip(m.template or (), mi)})
                    nm = m.name + ref_inst.inst_suffix(mi)
                    if nm == 'pickle':
                        continue
                    d['statics'].setdefault(nm, []).append((m, menv, mi))
                    ids += len(arities(m.args))
            elif m.k == 'Prop':
                d['props'].append(m)
                ids += 2
            elif m.k == 'Enum':
                d['enums'].append(m)
                self.enums[d['cpp'] + '::' + m.name] = '.'.join(path + (name, m.name))
        self.nids += ids
        self.classes.append(d)
        self.files[(pkg(path) + '/' if path else '') + name + '.m'] = d
        for e in d['enums']:
            self.files[(pkg(path) + '/' if path else '') + '+' + name + '/' + e.name + '.m'] = {
                'kind': 'enum', 'name': e.name, 'values': list(e.enumerators)}


# ---------------------------------------------------------------- marshalling table (execute universe)
class Marshal:
    def __init__(self, expect):
        self.x = expect
        self.classes = {}      # cpp spelling -> descriptor
        for d in expect.classes:
            self.classes[d['cpp']] = d

    def kind(self, t):
        """-> (kind, info) for a substituted type"""
        if not t.ns and not t.args and t.name in SCALARS:
            return 'scalar', t.name
        if not t.ns and not t.args and t.name == 'string':
            return 'string', 'string'
        if t.name in EIGEN and (not t.ns or t.ns == ('gtsam',)) and not t.args:
            return 'eigen', t.name
        if not t.ns and not t.args and t.name == 'void':
            return 'void', None
        cpp = ref_inst.cpp_typename(t.bare())
        if cpp in self.x.enums:
            return 'enum', cpp
        if not t.args:
            # a name spelled relative to an enclosing namespace (enum names of the coherent universe are unique)
            rel = [k for k in self.x.enums if k.endswith('::' + cpp)]
            if len(rel) == 1:
                return 'enum', rel[0]
        if cpp in self.classes:
            return 'class', cpp
        return 'unknown', cpp

    def matlab_class(self, cpp):
        d = self.classes[cpp]
        return '.'.join(d['path'] + (d['name'],))

    def guard(self, t):
        k, info = self.kind(t)
        if k in ('scalar', 'string', 'eigen'):
            return GUARD[info]
        if k == 'enum':
            return self.x.enums[info]
        if k == 'class':
            return self.matlab_class(info)
        return None

    def size_tests(self, t, i):
        k, info = self.kind(t)
        if k != 'eigen':
            return []
        return {'Vector': [(i, 2, 1)], 'Point2': [(i, 1, 2), (i, 2, 1)], 'Point3': [(i, 1, 3), (i, 2, 1)], 'Matrix': []}[info]

    def unwrap(self, t, name, idx):
        """expected unwrap statement pieces (fn, type, index, ptr, deref, decl) and the call-argument spelling."""
        k, info = self.kind(t)
        if k in ('scalar', 'string', 'eigen'):
            return {'fn': 'unwrap', 'type': info, 'index': idx, 'ptr': None, 'deref': False, 'decl': info}, name
        if k == 'enum':
            return {'fn': 'unwrap_enum', 'type': info, 'index': idx, 'ptr': None, 'deref': False, 'decl': info}, name
        if k == 'class':
            d = self.classes[info]
            ptr = 'ptr_' + ''.join(d['path']) + d['name']
            cpp = info.replace(', ', ',')
            if t.marker == '&':
                return {'fn': 'unwrap_shared_ptr', 'type': cpp, 'index': idx, 'ptr': ptr, 'deref': True,
                        'decl': cpp + '&'}, name
            if t.marker == '@':
                return {'fn': 'unwrap_ptr', 'type': cpp, 'index': idx, 'ptr': ptr, 'deref': False, 'decl': cpp + '*'}, name
            if t.marker == '*':
                return {'fn': 'unwrap_shared_ptr', 'type': cpp, 'index': idx, 'ptr': ptr, 'deref': False,
                        'decl': 'std::shared_ptr<%s>' % cpp}, name
            return {'fn': 'unwrap_shared_ptr', 'type': cpp, 'index': idx, 'ptr': ptr, 'deref': False,
                    'decl': 'std::shared_ptr<%s>' % cpp}, '*' + name
        return None, name

    def wrap(self, t, expr, out='out[0]'):
        """expected final statement for a single (non-pair) return."""
        k, info = self.kind(t)
        if k in ('scalar', 'string'):
            return '%s = wrap< %s >(%s);' % (out, info, expr)
        if k == 'eigen':
            return '%s = wrap< %s >(%s);' % (out, info, expr)
        if k == 'enum':
            return '%s = wrap_enum(%s,"%s");' % (out, expr, self.x.enums[info])
        if k == 'class':
            cpp = info.replace(', ', ',')
            if t.marker == '*':
                return '%s = wrap_shared_ptr(%s,"%s", false);' % (out, expr, self.matlab_class(info))
            return '%s = wrap_shared_ptr(std::make_shared<%s>(%s),"%s", false);' % (out, cpp, expr, self.matlab_class(info))
        return None


def nows(s):
    return re.sub(r'\s+', '', s)
