"""Interface model owned by the harness (ground truth for every oracle).

Everything is a frozen dataclass with a `k` (kind) tag so that models can be
written to / read from JSON replay files without pickling.
"""
from dataclasses import dataclass, field, fields, is_dataclass, replace
from typing import Optional, Tuple

BASIC = ("void", "bool", "unsigned char", "char", "int", "size_t", "double", "float")
GRAMMAR_KEYWORDS = frozenset(
    "const virtual class static pair template typedef enum namespace operator "
    "unsigned struct This std".split()) | frozenset(BASIC)

OPERATORS = ['+', '-', '*', '/', '%', '^', '&', '|', '+=', '-=', '*=', '/=', '%=',
             '^=', '&=', '|=', '<<', '<<=', '>>', '>>=', '==', '!=', '<', '>', '<=',
             '>=', '()', '[]']


@dataclass(frozen=True)
class T:
    """Type expression: const? ns::...::name<args...> marker?"""
    name: str
    ns: Tuple[str, ...] = ()
    args: Tuple["T", ...] = ()
    const: bool = False
    marker: str = ''  # '', '*' shared, '@' raw, '&' ref
    k: str = 'T'

    @property
    def basic(self):
        return not self.ns and not self.args and self.name in BASIC

    def bare(self):
        """Same type without const / marker."""
        return replace(self, const=False, marker='')


@dataclass(frozen=True)
class Pair:
    first: T
    second: T
    std: bool = False  # written as std::pair
    k: str = 'Pair'


@dataclass(frozen=True)
class Arg:
    type: T
    name: str
    default: Optional[str] = None
    k: str = 'Arg'


@dataclass(frozen=True)
class TParam:
    name: str
    insts: Optional[Tuple[T, ...]] = None  # None = no list; T without const/marker
    k: str = 'TParam'


@dataclass(frozen=True)
class Include:
    header: str
    k: str = 'Include'


@dataclass(frozen=True)
class Fwd:
    name: str
    ns: Tuple[str, ...] = ()
    virtual: bool = False
    parent: Optional[T] = None  # plain typename
    k: str = 'Fwd'


@dataclass(frozen=True)
class Enum:
    name: str
    enumerators: Tuple[str, ...]
    kw: str = 'enum'  # 'enum' | 'enum class' | 'enum struct'
    k: str = 'Enum'


@dataclass(frozen=True)
class Var:
    type: T
    name: str
    default: Optional[str] = None
    k: str = 'Var'


@dataclass(frozen=True)
class Typedef:
    type: T  # templated
    name: str
    k: str = 'Typedef'


@dataclass(frozen=True)
class Func:
    name: str
    ret: object  # T | Pair
    args: Tuple[Arg, ...] = ()
    template: Optional[Tuple[TParam, ...]] = None
    k: str = 'Func'


@dataclass(frozen=True)
class Ctor:
    name: str
    args: Tuple[Arg, ...] = ()
    template: Optional[Tuple[TParam, ...]] = None
    k: str = 'Ctor'


@dataclass(frozen=True)
class Method:
    name: str
    ret: object
    args: Tuple[Arg, ...] = ()
    const: bool = False
    template: Optional[Tuple[TParam, ...]] = None
    k: str = 'Method'


@dataclass(frozen=True)
class Static:
    name: str
    ret: object
    args: Tuple[Arg, ...] = ()
    template: Optional[Tuple[TParam, ...]] = None
    k: str = 'Static'


@dataclass(frozen=True)
class Prop:
    type: T
    name: str
    default: Optional[str] = None
    k: str = 'Prop'


@dataclass(frozen=True)
class Op:
    op: str
    ret: object
    args: Tuple[Arg, ...] = ()
    k: str = 'Op'


@dataclass(frozen=True)
class Dunder:
    name: str
    args: Tuple[Arg, ...] = ()
    k: str = 'Dunder'


@dataclass(frozen=True)
class Class:
    name: str
    members: tuple = ()
    template: Optional[Tuple[TParam, ...]] = None
    virtual: bool = False
    base: Optional[T] = None
    k: str = 'Class'


@dataclass(frozen=True)
class Namespace:
    name: str
    items: tuple = ()
    k: str = 'Namespace'


@dataclass(frozen=True)
class Module:
    items: tuple = ()
    k: str = 'Module'


KINDS = {c.__name__: c for c in (T, Pair, Arg, TParam, Include, Fwd, Enum, Var, Typedef,
                                 Func, Ctor, Method, Static, Prop, Op, Dunder, Class,
                                 Namespace, Module)}

VOID = T('void')


def to_json(x):
    if is_dataclass(x):
        return {f.name: to_json(getattr(x, f.name)) for f in fields(x)}
    if isinstance(x, (tuple, list)):
        return [to_json(y) for y in x]
    return x


def from_json(x):
    if isinstance(x, dict) and 'k' in x and x['k'] in KINDS:
        cls = KINDS[x['k']]
        return cls(**{n: from_json(v) for n, v in x.items()})
    if isinstance(x, list):
        return tuple(from_json(y) for y in x)
    return x


def walk_items(items, path=()):
    """Yield (path, item) for every non-namespace item, recursing into namespaces."""
    for it in items:
        if it.k == 'Namespace':
            yield path, it
            yield from walk_items(it.items, path + (it.name,))
        else:
            yield path, it


def count_nodes(items):
    n = 0
    for it in items:
        n += 1
        if it.k == 'Namespace':
            n += count_nodes(it.items)
        elif it.k == 'Class':
            n += len(it.members)
    return n
