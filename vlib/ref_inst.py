"""Reference model of template instantiation (independent of gtwrap).

subst(): capture-free substitution on type trees, any depth, scoped T::X, This.
expand_module(): what `instantiate_namespace` must produce, as plain descriptors.
describe_real(): the same descriptors read off the real instantiated tree.
"""
import itertools
from dataclasses import replace
from . import spec as S


# ------------------------------------------------------------------ C++ spelling
def cpp_typename(t):
    s = '::'.join(t.ns + (t.name,))
    if t.args:
        s += '<' + ', '.join(cpp(a) for a in t.args) + '>'
    return s


def cpp(t):
    s = cpp_typename(t)
    if t.marker == '*':
        s = 'std::shared_ptr<%s>' % s
    elif t.marker == '@':
        s += '*'
    elif t.marker == '&':
        s += '&'
    return ('const ' if t.const else '') + s


def cpp_ret(r):
    if r.k == 'Pair':
        return 'std::pair<%s,%s>' % (cpp(r.first), cpp(r.second))
    return cpp(r)


def inst_name(t):
    # `unsigned char` is the only type name with a blank; names are identifiers
    return t.name.replace(' ', '') + ''.join(inst_name(a) for a in t.args)


def cap(n):
    return n[:1].upper() + n[1:]


def inst_suffix(insts):
    return ''.join(cap(inst_name(i)) for i in insts)


# ------------------------------------------------------------------ substitution
def subst(t, env, this=None):
    """env: {param name: concrete T (no qualifiers)}; this: T of the instantiated class
    (ns + name + args) or None.  Qualifiers of `t` are kept."""
    args = tuple(subst(a, env, this) for a in t.args)
    if not t.ns and not t.args and t.name in env:
        c = env[t.name]
        return S.T(c.name, c.ns, c.args, t.const, t.marker)
    if not t.ns and not t.args and t.name == 'This' and this is not None:
        return S.T(this.name, this.ns, this.args, t.const, t.marker)
    ns = t.ns
    if ns:
        # scoped use: the *first* component names a template parameter (T::Value), or any
        # component is `This` (This::X, ns::This::X)
        if ns[0] in env:
            c = env[ns[0]]
            # ns::Concrete<args>::rest  -- spelled with the concrete type as a scope
            scope = c.ns + (_scope_spelling(c),)
            ns = scope + ns[1:]
        elif this is not None and 'This' in ns:
            i = ns.index('This')
            ns = ns[:i] + (_scope_spelling(replace(this, ns=())),) + ns[i + 1:]
    return S.T(t.name, ns, args, t.const, t.marker)


def _scope_spelling(c):
    s = c.name
    if c.args:
        s += '<' + ', '.join(cpp(a) for a in c.args) + '>'
    return s


def subst_ret(r, env, this):
    if r.k == 'Pair':
        return S.Pair(subst(r.first, env, this), subst(r.second, env, this), r.std)
    return subst(r, env, this)


def param_depths(t, names, depth=0):
    """[(depth, how)] for every occurrence of a name from `names` in t; how in
    'exact' | 'scoped' | 'this' | 'this-scoped'."""
    out = []
    if not t.ns and not t.args and t.name in names:
        out.append((depth, 'this' if t.name == 'This' else 'exact'))
    if t.ns:
        if t.ns[0] in names and t.ns[0] != 'This':
            out.append((depth, 'scoped'))
        if 'This' in t.ns and 'This' in names:
            out.append((depth, 'this-scoped'))
    for a in t.args:
        out += param_depths(a, names, depth + 1)
    return out


# ------------------------------------------------------------------ expansion
def _products(template):
    """All instantiation tuples of a template in the tool's order (first parameter slowest);
    [] when some parameter has no list."""
    if template is None:
        return [()]
    lists = [p.insts for p in template]
    if any(l is None for l in lists):
        return []
    return list(itertools.product(*lists))


def _args_desc(args, env, this):
    return [(cpp(subst(a.type, env, this)), a.name, a.default) for a in args]


def class_desc(c, path, insts, new_name=None):
    """Descriptor of one instantiation of class model `c` declared under namespace `path`."""
    env = {p.name: i for p, i in zip(c.template or (), insts)}
    name = new_name or (c.name + inst_suffix(insts))
    this = S.T(c.name, tuple(path), tuple(insts) if c.template else ())
    cppname = cpp_typename(this)
    d = {'kind': 'class', 'name': name, 'cpp': cppname, 'virtual': c.virtual,
         'base': None, 'ctors': [], 'methods': [], 'statics': [], 'props': [], 'ops': [],
         'dunders': [], 'enums': []}
    if c.base is not None:
        d['base'] = cpp_typename(subst(c.base, env, this)) if c.base.args else cpp_typename(c.base)
    for m in c.members:
        if m.k in ('Ctor', 'Method', 'Static'):
            for mi in _products(m.template):
                menv = dict(env)
                menv.update({p.name: i for p, i in zip(m.template or (), mi)})
                if m.k == 'Ctor':
                    d['ctors'].append({'name': name, 'args': _args_desc(m.args, menv, this)})
                else:
                    callee = m.name + ('<' + ','.join(cpp_typename(i) for i in mi) + '>' if m.template else '')
                    e = {'name': m.name + inst_suffix(mi), 'callee': callee,
                         'ret': cpp_ret(subst_ret(m.ret, menv, this)),
                         'args': _args_desc(m.args, menv, this)}
                    if m.k == 'Method':
                        e['const'] = m.const
                        d['methods'].append(e)
                    else:
                        d['statics'].append(e)
        elif m.k == 'Prop':
            d['props'].append((cpp(subst(m.type, env, this)), m.name, m.default))
        elif m.k == 'Op':
            d['ops'].append({'op': m.op, 'ret': cpp_ret(subst_ret(m.ret, env, this)),
                             'args': _args_desc(m.args, env, this)})
        elif m.k == 'Dunder':
            d['dunders'].append({'name': m.name, 'args': _args_desc(m.args, env, this)})
        elif m.k == 'Enum':
            d['enums'].append((m.name, list(m.enumerators)))
    return d


def func_desc(f, path, insts, new_name=None):
    env = {p.name: i for p, i in zip(f.template or (), insts)}
    name = new_name or (f.name + inst_suffix(insts))
    callee = f.name
    if f.template:
        callee += '<' + ','.join(cpp_typename(i) for i in insts) + '>'
    return {'kind': 'func', 'name': name, 'callee': callee,
            'ret': cpp_ret(subst_ret(f.ret, env, None)), 'args': _args_desc(f.args, env, None)}


def find_template(mod, ns, name):
    """Class / Func / Fwd models named `name` directly inside namespace path `ns`."""
    def rec(items, rest):
        if not rest:
            return [it for it in items if it.k in ('Class', 'Func', 'Fwd') and it.name == name]
        out = []
        for it in items:
            if it.k == 'Namespace' and it.name == rest[0]:
                out += rec(it.items, rest[1:])
        return out
    return rec(mod.items, tuple(ns))


def expand_module(mod):
    """-> nested descriptor list mirroring namespace structure:
    [('ns', name, [...]) | class/func descriptor | ('pass', kind, name)], typedef results are
    tagged d['typedef']=True."""
    def rec(items, path):
        out = []
        for it in items:
            if it.k == 'Namespace':
                out.append({'kind': 'ns', 'name': it.name, 'content': rec(it.items, path + (it.name,))})
            elif it.k == 'Class':
                for insts in _products(it.template):
                    out.append(class_desc(it, path, insts))
            elif it.k == 'Func':
                for insts in _products(it.template):
                    out.append(func_desc(it, path, insts))
            elif it.k == 'Typedef':
                found = find_template(mod, it.type.ns, it.type.name)
                if len(found) != 1:
                    out.append({'kind': 'unresolved-typedef', 'name': it.name})
                    continue
                tgt = found[0]
                if tgt.k == 'Class':
                    d = class_desc(tgt, it.type.ns, it.type.args, it.name)
                elif tgt.k == 'Func':
                    d = func_desc(tgt, it.type.ns, it.type.args, it.name)
                else:
                    d = {'kind': 'decl', 'name': it.name,
                         'cpp': '::'.join(tuple(it.type.ns) + (tgt.name,)) + '<'
                         + ','.join('::'.join(a.ns + (a.name,)) for a in it.type.args) + '>'}
                d['typedef'] = True
                out.append(d)
            elif it.k == 'Enum':
                out.append({'kind': 'pass', 'what': 'enum', 'name': it.name, 'vals': list(it.enumerators)})
            elif it.k == 'Var':
                out.append({'kind': 'pass', 'what': 'var', 'name': it.name, 'type': cpp(it.type),
                            'default': it.default})
            elif it.k == 'Fwd':
                out.append({'kind': 'pass', 'what': 'fwd', 'name': it.name})
            elif it.k == 'Include':
                out.append({'kind': 'pass', 'what': 'include', 'name': it.header})
        return out
    return rec(mod.items, ())


# ------------------------------------------------------------------ real tree -> descriptors
def describe_real(tree):
    import gtwrap.interface_parser as parser
    import gtwrap.template_instantiator as inst

    def args(al):
        return [(a.ctype.to_cpp(), str(a.name), None if a.default is None else str(a.default))
                for a in al.list()]

    def klass(c):
        d = {'kind': 'class', 'name': str(c.name), 'cpp': c.to_cpp(), 'virtual': bool(c.is_virtual),
             'base': None, 'ctors': [], 'methods': [], 'statics': [], 'props': [], 'ops': [],
             'dunders': [], 'enums': []}
        if c.parent_class:
            d['base'] = c.parent_class.to_cpp()
        for x in c.ctors:
            d['ctors'].append({'name': str(x.name), 'args': args(x.args)})
        for x in c.methods:
            d['methods'].append({'name': str(x.name), 'callee': x.to_cpp(), 'ret': x.return_type.to_cpp(),
                                 'args': args(x.args), 'const': bool(x.is_const)})
        for x in c.static_methods:
            d['statics'].append({'name': str(x.name), 'callee': x.to_cpp(), 'ret': x.return_type.to_cpp(),
                                 'args': args(x.args)})
        for x in c.properties:
            d['props'].append((x.ctype.to_cpp(), str(x.name), None if x.default is None else str(x.default)))
        for x in c.operators:
            d['ops'].append({'op': str(x.operator), 'ret': x.return_type.to_cpp(), 'args': args(x.args)})
        for x in c.dunder_methods:
            d['dunders'].append({'name': str(x.name), 'args': args(x.args)})
        for x in c.enums:
            d['enums'].append((str(x.name), [str(e.name) for e in x.enumerators]))
        return d

    def rec(ns):
        out = []
        for e in ns.content:
            if isinstance(e, parser.Namespace):
                out.append({'kind': 'ns', 'name': str(e.name), 'content': rec(e)})
            elif isinstance(e, inst.InstantiatedClass):
                out.append(klass(e))
            elif isinstance(e, inst.InstantiatedGlobalFunction):
                out.append({'kind': 'func', 'name': str(e.name), 'callee': e.to_cpp(),
                            'ret': e.return_type.to_cpp(), 'args': args(e.args)})
            elif isinstance(e, inst.InstantiatedDeclaration):
                out.append({'kind': 'decl', 'name': str(e.name), 'cpp': e.to_cpp()})
            elif isinstance(e, parser.Enum):
                out.append({'kind': 'pass', 'what': 'enum', 'name': str(e.name),
                            'vals': [str(x.name) for x in e.enumerators]})
            elif isinstance(e, parser.Variable):
                out.append({'kind': 'pass', 'what': 'var', 'name': str(e.name), 'type': e.ctype.to_cpp(),
                            'default': None if e.default is None else str(e.default)})
            elif isinstance(e, parser.ForwardDeclaration):
                out.append({'kind': 'pass', 'what': 'fwd', 'name': str(e.name)})
            elif isinstance(e, parser.Include):
                out.append({'kind': 'pass', 'what': 'include', 'name': str(e.header)})
            elif isinstance(e, parser.Class):
                out.append({'kind': 'uninstantiated-class', 'name': str(e.name)})
            else:
                out.append({'kind': 'unknown', 'name': repr(e)[:60]})
        return out
    return rec(tree)


# ------------------------------------------------------------------ comparison
def split_typedefs(content, real):
    """(ordered non-typedef descriptors, multiset-able typedef descriptors, namespaces)"""
    plain, tds = [], []
    for d in content:
        if d.get('typedef'):
            d = dict(d)
            d.pop('typedef')
            tds.append(d)
        else:
            plain.append(d)
    return plain, tds


def compare(expected, actual, path=''):
    """Compare expected (from expand_module) with actual (describe_real) -> list of diffs.
    Non-typedef entries must agree in order; typedef instantiations must occur exactly once
    somewhere in the same namespace's list (position free)."""
    diffs = []
    exp_plain, exp_td = split_typedefs(expected, False)
    act = list(actual)
    # remove typedef instantiations from actual (match by kind+name)
    for td in exp_td:
        hits = [i for i, a in enumerate(act) if a.get('kind') == td['kind'] and a.get('name') == td['name']
                and _same(td, a)]
        if len(hits) == 0:
            near = [a for a in act if a.get('name') == td['name']]
            diffs.append((path + '/typedef:' + td['name'], 'missing-or-different',
                          _first_field_diff(td, near[0]) if near else 'absent'))
            if near:
                act.remove(near[0])
        else:
            act.pop(hits[0])
    for i, (e, a) in enumerate(zip(exp_plain, act)):
        p = '%s/%d:%s' % (path, i, e.get('name'))
        if e.get('kind') != a.get('kind') or e.get('name') != a.get('name'):
            diffs.append((p, 'order/identity', (e.get('kind'), e.get('name')), (a.get('kind'), a.get('name'))))
            break
        if e['kind'] == 'ns':
            diffs += compare(e['content'], a['content'], path + '/' + e['name'])
        elif not _same(e, a):
            diffs.append((p,) + tuple(_first_field_diff(e, a)))
    if len(exp_plain) != len(act) and not diffs:
        diffs.append((path, 'count', [(e.get('kind'), e.get('name')) for e in exp_plain],
                      [(a.get('kind'), a.get('name')) for a in act]))
    return diffs


def _same(e, a):
    return _norm(e) == _norm(a)


def _norm(d):
    import json
    return json.loads(json.dumps(d))


def _first_field_diff(e, a):
    e, a = _norm(e), _norm(a)
    for k in e:
        if e[k] != a.get(k):
            if isinstance(e[k], list) and isinstance(a.get(k), list):
                for i, (x, y) in enumerate(zip(e[k], a[k])):
                    if x != y:
                        if isinstance(x, dict) and isinstance(y, dict):
                            for kk in x:
                                if x[kk] != y.get(kk):
                                    return ('%s[%d].%s' % (k, i, kk), x[kk], y.get(kk))
                        return ('%s[%d]' % (k, i), x, y)
                return (k + '.len', len(e[k]), len(a[k]))
            return (k, e[k], a.get(k))
    return ('?', None, None)
