"""Compilation helpers (clang++-14): pybind11 modules with a pre-compiled header, sanitizer builds,
MEX gateway + mock MEX runtime.  Everything is built in a fresh temporary directory that the caller
removes."""
import os
import shutil
import subprocess
import sysconfig
import tempfile

from .runner import REPO, VERIF

CXX = 'clang++'
PYB_DIR = os.path.join(VERIF, 'cxx', 'pyb')
PY_INC = sysconfig.get_paths()['include']
EXT = sysconfig.get_config_var('EXT_SUFFIX')


def pybind_flags(san=False):
    f = ['-std=c++17', '-O0', '-fPIC', '-w', '-fvisibility=hidden',
         '-I', os.path.join(REPO, 'pybind11', 'include'), '-I', PY_INC, '-I', PYB_DIR]
    if san:
        f += ['-fsanitize=address,undefined', '-fno-sanitize-recover=all', '-fno-omit-frame-pointer', '-g']
    return f


class PybindBuilder:
    """One per worker: builds the PCH once, then compiles generated modules against it."""

    def __init__(self, san=False):
        self.san = san
        self.root = tempfile.mkdtemp(prefix='verif_pyb_')
        self.pch = os.path.join(self.root, 'pch.h.pch')
        shutil.copy(os.path.join(PYB_DIR, 'pch.h'), os.path.join(self.root, 'pch.h'))
        p = subprocess.run([CXX] + pybind_flags(san) + ['-x', 'c++-header', os.path.join(self.root, 'pch.h'), '-o', self.pch],
                           stdout=subprocess.PIPE, stderr=subprocess.PIPE, timeout=600)
        if p.returncode != 0:
            raise RuntimeError('PCH build failed: ' + p.stderr.decode('utf8', 'replace')[-800:])
        self.n = 0

    def template(self):
        return open(os.path.join(PYB_DIR, 'module.tpl')).read()

    def workdir(self):
        self.n += 1
        d = os.path.join(self.root, 'm%d' % self.n)
        os.makedirs(d)
        return d

    def compile(self, d, sources, libh, syntax_only=False, module='m', extra_files=None):
        """sources: {filename: text} translation units; libh: text of lib.h.  Returns (ok, stderr, so path)."""
        open(os.path.join(d, 'lib.h'), 'w').write(libh)
        for n, t in (extra_files or {}).items():
            open(os.path.join(d, n), 'w').write(t)
        objs = []
        for name, text in sources.items():
            src = os.path.join(d, name)
            open(src, 'w').write(text)
            cmd = [CXX] + pybind_flags(self.san) + ['-I', d, '-I', self.root, '-include-pch', self.pch]
            if syntax_only:
                cmd += ['-fsyntax-only', src]
            else:
                obj = src + '.o'
                cmd += ['-c', src, '-o', obj]
                objs.append(obj)
            p = subprocess.run(cmd, stdout=subprocess.PIPE, stderr=subprocess.PIPE, timeout=900)
            if p.returncode != 0:
                return False, p.stderr.decode('utf8', 'replace'), None
        if syntax_only:
            return True, '', None
        so = os.path.join(d, module + EXT)
        cmd = [CXX, '-shared', '-o', so] + objs + (['-fsanitize=address,undefined'] if self.san else [])
        p = subprocess.run(cmd, stdout=subprocess.PIPE, stderr=subprocess.PIPE, timeout=900)
        if p.returncode != 0:
            return False, p.stderr.decode('utf8', 'replace'), None
        return True, '', so

    def close(self):
        shutil.rmtree(self.root, ignore_errors=True)


def asan_runtime():
    p = subprocess.run([CXX, '-print-file-name=libclang_rt.asan-x86_64.so'], stdout=subprocess.PIPE)
    return p.stdout.decode().strip()
