"""Extractor for the (very regular) pybind11 code emitted by gtwrap: text -> binding inventory.

The extractor is a small bracket-aware scanner; it does not share code with gtwrap.
"""
import re


class ExtractError(Exception):
    pass


def _skip_string(s, i):
    """s[i] is a quote; return index after the closing quote (C++ escapes honoured)."""
    q = s[i]
    i += 1
    while i < len(s):
        c = s[i]
        if c == '\\':
            i += 2
            continue
        if c == q:
            return i + 1
        i += 1
    raise ExtractError('unterminated string literal')


def split_top(s, sep=',', angle=False):
    """Split s at `sep` occurring outside (), [], {}, string literals (and <> when angle)."""
    out = []
    depth = 0
    adepth = 0
    start = 0
    i = 0
    n = len(s)
    while i < n:
        c = s[i]
        if c in '"\'':
            if c == "'" and not (i + 2 < n and (s[i + 2] == "'" or s[i + 1] == '\\')):
                i += 1      # an apostrophe that is not a char literal (should not occur)
                continue
            i = _skip_string(s, i)
            continue
        if c == '/' and s.startswith('/*', i):
            j = s.find('*/', i + 2)
            i = n if j < 0 else j + 2
            continue
        if c in '([{':
            depth += 1
        elif c in ')]}':
            depth -= 1
        elif angle and c == '<':
            adepth += 1
        elif angle and c == '>' and adepth > 0 and not (i > 0 and s[i - 1] == '-'):
            adepth -= 1
        elif c == sep and depth == 0 and adepth == 0:
            out.append(s[start:i])
            start = i + 1
        i += 1
    out.append(s[start:])
    return out


def match_bracket(s, i):
    """s[i] is an opening bracket; index of the matching closing one."""
    pairs = {'(': ')', '[': ']', '{': '}'}
    depth = 0
    n = len(s)
    while i < n:
        c = s[i]
        if c in '"':
            i = _skip_string(s, i)
            continue
        if c == "'" and i + 2 < n and (s[i + 2] == "'" or s[i + 1] == '\\'):
            i = _skip_string(s, i)
            continue
        if c == '/' and s.startswith('/*', i):
            j = s.find('*/', i + 2)
            i = n if j < 0 else j + 2
            continue
        if c in '([{':
            depth += 1
        elif c in ')]}':
            depth -= 1
            if depth == 0:
                return i
        i += 1
    raise ExtractError('unbalanced bracket')


def module_body(text):
    """text between the braces of the module definition (PYBIND11_MODULE(..) {...} or
    void name(py::module_ &m_) {...})."""
    m = re.search(r'(PYBIND11_MODULE\(\s*\w+\s*,\s*m_\s*\)|void\s+\w+\s*\(\s*py::module_\s*&\s*m_\s*\))\s*\{', text)
    if not m:
        raise ExtractError('module definition not found')
    open_i = m.end() - 1
    close_i = match_bracket(text, open_i)
    return text[open_i + 1:close_i], m.group(1), text[:m.start()], text[close_i + 1:]


def statements(body):
    """top-level statements (split at ';' at depth 0); preprocessor lines dropped."""
    lines = [l for l in body.split('\n') if not l.lstrip().startswith('#')]
    body = '\n'.join(lines)
    return [s.strip() for s in split_top(body, ';') if s.strip()]


_STR = r'"((?:[^"\\]|\\.)*)"'


def parse_lambda(expr):
    """'[](SIG){BODY}' -> (sig params [(type, name)], body)"""
    expr = expr.strip()
    if not expr.startswith('[]'):
        raise ExtractError('not a lambda: ' + expr[:60])
    i = expr.index('(')
    j = match_bracket(expr, i)
    sig = expr[i + 1:j]
    k = expr.index('{', j)
    e = match_bracket(expr, k)
    body = expr[k + 1:e]
    if expr[e + 1:].strip():
        raise ExtractError('text after lambda: ' + expr[e + 1:][:40])
    params = []
    for p in split_top(sig, ',', angle=True):
        p = p.strip()
        if not p:
            continue
        m = re.match(r'^(.*?)[\s]*(\b\w+)$', p, re.S)
        if not m:
            raise ExtractError('lambda parameter: ' + p)
        ty = m.group(1).strip()
        params.append((ty, m.group(2)))
    return params, body.strip()


def parse_call(body):
    """'return self->f<int>(a, b);' -> dict(ret, receiver, callee, args)"""
    b = body.strip()
    pre = ''
    m = re.match(r'^(py::scoped_ostream_redirect output;)\s*', b)
    if m:
        pre = 'redirect'
        b = b[m.end():]
    ret = False
    if b.startswith('return'):
        ret = True
        b = b[len('return'):].strip()
    if not b.endswith(';'):
        raise ExtractError('call body does not end with ;: ' + body[:80])
    b = b[:-1].strip()
    if not b.endswith(')'):
        raise ExtractError('call expression: ' + b[:80])
    # find the '(' matching the final ')'
    depth = 0
    i = len(b) - 1
    while i >= 0:
        if b[i] == ')':
            depth += 1
        elif b[i] == '(':
            depth -= 1
            if depth == 0:
                break
        i -= 1
    callee = b[:i].strip()
    args = [a.strip() for a in split_top(b[i + 1:-1], ',') if a.strip()]
    receiver = ''
    if callee.startswith('self->'):
        receiver, callee = 'self->', callee[len('self->'):]
    elif callee.startswith('self.'):
        receiver, callee = 'self.', callee[len('self.'):]
    return {'ret': ret, 'receiver': receiver, 'callee': callee, 'args': args, 'pre': pre}


def parse_pyargs(parts):
    """[' py::arg("a") = 3', ' "doc"'] -> ([(name, default|None)], doc literal|None)"""
    out = []
    doc = None
    merged = []
    for p in parts:
        ps = p.strip()
        if merged and not ps.startswith('py::arg(') and not ps.startswith('"'):
            merged[-1] = merged[-1] + ',' + p     # a comma inside <...> of a default value
        else:
            merged.append(p)
    for p in merged:
        p = p.strip()
        m = re.match(r'^py::arg\(' + _STR + r'\)\s*(?:=\s*(.*))?$', p, re.S)
        if m:
            out.append((m.group(1), m.group(2) if m.group(2) is not None else None))
        elif p.startswith('"'):
            doc = p
        else:
            raise ExtractError('unexpected binding argument: ' + p[:60])
    return out, doc


def parse_chain(s):
    """'.def(...)\n.def_static(...)' -> [(method, inner text)]"""
    out = []
    i = 0
    n = len(s)
    while i < n:
        while i < n and s[i].isspace():
            i += 1
        if i >= n:
            break
        if s[i] != '.':
            raise ExtractError('chain: expected "." at ' + s[i:i + 40])
        m = re.match(r'\.(\w+)\s*\(', s[i:])
        if not m:
            raise ExtractError('chain element: ' + s[i:i + 40])
        op = i + m.end() - 1
        cl = match_bracket(s, op)
        out.append((m.group(1), s[op + 1:cl]))
        i = cl + 1
    return out


def parse_def(kind, inner):
    """one .def / .def_static / .def_readwrite ... element of a class chain or module."""
    if inner.lstrip().startswith('py::init<'):
        t = inner.lstrip()
        i = t.index('<')
        depth = 0
        j = i
        while j < len(t):
            if t[j] == '<':
                depth += 1
            elif t[j] == '>' and t[j - 1] != '-':
                depth -= 1
                if depth == 0:
                    break
            j += 1
        if not t[j + 1:].lstrip().startswith('()'):
            raise ExtractError('py::init: ' + t[:80])
        types = [x.strip() for x in split_top(t[i + 1:j], ',', angle=True) if x.strip()]
        rest = t[j + 1:].lstrip()[2:]
        parts = split_top(rest, ',')
        if parts[0].strip():
            raise ExtractError('py::init tail: ' + rest[:60])
        pa, doc = parse_pyargs(parts[1:])
        return {'kind': 'init', 'types': types, 'pyargs': pa}
    parts = split_top(inner, ',')
    head = parts[0].strip()
    if kind in ('def_readwrite', 'def_readonly'):
        nm = re.match('^' + _STR + '$', head)
        return {'kind': kind, 'name': nm.group(1), 'target': parts[1].strip()}
    if head.startswith('py::pickle'):
        return {'kind': 'pickle', 'text': inner}
    if 'py::self' in head and not head.startswith('"'):
        return {'kind': 'op', 'expr': re.sub(r'\s+', ' ', head)}
    nm = re.match('^' + _STR + '$', head)
    if not nm:
        raise ExtractError('binding name: ' + head[:60])
    name = nm.group(1)
    target = parts[1].strip()
    if target.startswith('&'):
        return {'kind': kind, 'name': name, 'target': target}
    params, body = parse_lambda(target)
    pa, doc = parse_pyargs(parts[2:])
    d = {'kind': kind, 'name': name, 'params': params, 'body': body, 'pyargs': pa, 'doc': doc}
    try:
        d['call'] = parse_call(body)
    except ExtractError:
        d['call'] = None
    return d


def extract(text):
    """-> dict(includes, pre, modules {var: path tuple}, order [events], classes [...], enums [...],
    attrs [...], functions [...], submodule_decls [...], init_calls, fwd_decls, module_def)."""
    body, mdef, pre, post = module_body(text)
    inv = {'module_def': mdef, 'pre': pre, 'post': post, 'modules': {'m_': ()}, 'classes': [],
           'enums': [], 'attrs': [], 'functions': [], 'submodules': [], 'events': [], 'other': [],
           'init_calls': [], 'doc': None}
    classvars = {}
    for st in statements(body):
        m = re.match(r'^m_\.doc\(\)\s*=\s*(.*)$', st, re.S)
        if m:
            inv['doc'] = m.group(1)
            continue
        m = re.match(r'^pybind11::module\s+(\w+)\s*=\s*(\w+)\.def_submodule\(' + _STR + r'\s*,\s*' + _STR + r'\)$', st, re.S)
        if m:
            var, parent, name = m.group(1), m.group(2), m.group(3)
            inv['events'].append(('submodule', var, parent, name))
            inv['submodules'].append({'var': var, 'parent': parent, 'name': name})
            continue
        m = re.match(r'^(\w+)\(m_\)$', st)
        if m:
            inv['init_calls'].append(m.group(1))
            continue
        m = re.match(r'^py::class_<(.*)$', st, re.S)
        if m:
            # template argument list ends at the '>' matching the first '<'
            i = st.index('<')
            depth = 0
            j = i
            while j < len(st):
                if st[j] == '<':
                    depth += 1
                elif st[j] == '>':
                    depth -= 1
                    if depth == 0:
                        break
                j += 1
            targs = [t.strip() for t in split_top(st[i + 1:j], ',', angle=True)]
            rest = st[j + 1:]
            m2 = re.match(r'^\s*(\w+)?\s*\(\s*(\w+)\s*,\s*' + _STR + r'\s*\)', rest, re.S)
            if not m2:
                raise ExtractError('class header: ' + st[:120])
            inst, modvar, pyname = m2.group(1), m2.group(2), m2.group(3)
            chain = rest[m2.end():]
            c = {'cpp': targs[0], 'holder': targs[-1], 'base': targs[1] if len(targs) == 3 else None,
                 'targs': targs, 'modvar': modvar, 'name': pyname, 'instance': inst, 'defs': []}
            inv['events'].append(('class', modvar, pyname))
            if inst:
                classvars[inst] = c
                # "py::class_<...> inst(m, "Name")" is one statement, the chain follows as the
                # next statement starting with the instance name
                if chain.strip():
                    raise ExtractError('unexpected text after class instance declaration')
            else:
                c['defs'] = [parse_def(k, inner) for k, inner in parse_chain(chain)]
            inv['classes'].append(c)
            continue
        m = re.match(r'^(\w+)\s*(\..*)$', st, re.S)
        if m and m.group(1) in classvars and not m.group(2).startswith('.attr('):
            c = classvars[m.group(1)]
            c['defs'] += [parse_def(k, inner) for k, inner in parse_chain(m.group(2))]
            continue
        m = re.match(r'^(\w+)$', st)
        if m and m.group(1) in classvars:
            continue   # class with enums but no members: bare instance name statement
        m = re.match(r'^py::enum_<(.*?)>\(\s*(\w+)\s*,\s*' + _STR + r'\s*,\s*py::arithmetic\(\)\s*\)(.*)$', st, re.S)
        if m:
            vals = []
            for k, inner in parse_chain(m.group(4)):
                if k != 'value':
                    raise ExtractError('enum chain element ' + k)
                p = split_top(inner, ',')
                vals.append((re.match('^' + _STR + '$', p[0].strip()).group(1), p[1].strip()))
            e = {'cpp': m.group(1).strip(), 'scopevar': m.group(2), 'name': m.group(3), 'values': vals}
            inv['enums'].append(e)
            inv['events'].append(('enum', m.group(2), m.group(3)))
            continue
        m = re.match(r'^(\w+)\.attr\(' + _STR + r'\)\s*=\s*(.*)$', st, re.S)
        if m:
            inv['attrs'].append({'modvar': m.group(1), 'name': m.group(2), 'value': m.group(3).strip()})
            inv['events'].append(('attr', m.group(1), m.group(2)))
            continue
        m = re.match(r'^(\w+)\.(def|def_static)\((.*)\)$', st, re.S)
        if m:
            d = parse_def(m.group(2), m.group(3))
            d['modvar'] = m.group(1)
            inv['functions'].append(d)
            inv['events'].append(('function', m.group(1), d['name']))
            continue
        inv['other'].append(st)
    # includes / forward declarations in the preamble
    inv['includes'] = re.findall(r'^#include\s+(.*)$', pre, re.M)
    inv['fwd_decls'] = re.findall(r'^void\s+(\w+)\(py::module_\s*&\);', pre, re.M)
    inv['boost_exports'] = re.findall(r'^BOOST_CLASS_EXPORT\((.*)\)$', pre, re.M)
    inv['boost_typedefs'] = re.findall(r'^typedef\s+(.*)\s+(\w+);$', pre, re.M)
    return inv


def blocks(text):
    """per-entity blocks of the emitted module body: {(kind, modvar, name, ordinal): statement text}."""
    body, mdef, pre, post = module_body(text)
    out = {}
    counts = {}
    classvars = {}
    for st in statements(body):
        key = None
        m = re.match(r'^py::class_<', st)
        if m:
            m2 = re.search(r'>\s*(\w+)?\s*\(\s*(\w+)\s*,\s*' + _STR + r'\s*\)', st)
            # the header match must be the one that closes the template list: take the last
            # occurrence before the first '.def'
            head = st.split('\n')[0]
            m2 = re.search(r'>\s*(\w+)?\s*\(\s*(\w+)\s*,\s*' + _STR + r'\s*\)\s*$', head)
            if m2:
                key = ('class', m2.group(2), m2.group(3))
                if m2.group(1):
                    classvars[m2.group(1)] = key
        if key is None:
            m = re.match(r'^(\w+)\s*(\.|$)', st)
            if m and m.group(1) in classvars:
                key = ('classbody',) + classvars[m.group(1)][1:]
        if key is None:
            m = re.match(r'^py::enum_<.*?>\(\s*(\w+)\s*,\s*' + _STR, st, re.S)
            if m:
                key = ('enum', m.group(1), m.group(2))
        if key is None:
            m = re.match(r'^(\w+)\.attr\(' + _STR, st)
            if m:
                key = ('attr', m.group(1), m.group(2))
        if key is None:
            m = re.match(r'^(\w+)\.def\(' + _STR, st)
            if m:
                key = ('function', m.group(1), m.group(2))
        if key is None:
            m = re.match(r'^pybind11::module\s+(\w+)', st)
            if m:
                key = ('submodule', m.group(1), '')
        if key is None:
            key = ('other', '', st[:30])
        n = counts.get(key, 0)
        counts[key] = n + 1
        out[key + (n,)] = st
    return out
