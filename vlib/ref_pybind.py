"""Reference model of the pybind11 binding inventory: (model, options) -> expected bindings,
and normalisation of the extractor's output (vlib.pyinv) into the same vocabulary."""
import re
from . import ref_inst
from . import spec as S

PY_KEYWORDS = ['False', 'None', 'True', 'and', 'as', 'assert', 'break', 'class', 'continue', 'def', 'del',
               'elif', 'else', 'except', 'finally', 'for', 'from', 'global', 'if', 'import', 'in', 'is',
               'lambda', 'nonlocal', 'not', 'or', 'pass', 'raise', 'return', 'try', 'while', 'with', 'yield']
IPYTHON = ["svg", "png", "jpeg", "html", "javascript", "markdown", "latex"]


def ws(s):
    return re.sub(r'\s+', ' ', s).strip()


def nows(s):
    return re.sub(r'\s+', '', s)


def modvar(path, top):
    """path, top: tuples of namespace names *without* the leading ''."""
    return 'm_' + '_'.join(path[len(top):])


def in_top(path, top):
    return tuple(path[:len(top)]) == tuple(top)


def expected(mod, top=(), ignore=(), ser=False):
    """top: tuple of namespace names of the top module namespace (() = global)."""
    exp = {'submodules': [], 'classes': [], 'enums': [], 'attrs': [], 'functions': [], 'includes': [],
           'serializing': []}
    desc = ref_inst.expand_module(mod)

    def pyname_of(method_name, callee, templated):
        py = method_name
        if callee in IPYTHON:
            py = '_repr_%s_' % callee
        if py in PY_KEYWORDS:
            py += '_'
        return py

    def rec(items, descs, path):
        # includes are collected on the whole path to the top namespace and below it
        partial = all(a == b for a, b in zip(path, top))
        if not partial:
            return
        inside = len(path) >= len(top)
        mv = modvar(path, top) if inside else None
        di = iter(descs)
        for d in descs:
            k = d['kind']
            if k == 'pass' and d['what'] == 'include':
                exp['includes'].append(d['name'])
            if k == 'ns':
                sub = path + (d['name'],)
                if all(a == b for a, b in zip(sub, top)) and len(sub) > len(top):
                    entry = (modvar(sub, top), modvar(path, top), d['name'])
                    if entry not in exp['submodules']:      # a namespace opened again reuses its submodule
                        exp['submodules'].append(entry)
                rec(None, d['content'], sub)
                continue
            if not inside:
                continue
            if k == 'class':
                if d['cpp'] in ignore:
                    continue
                c = {'cpp': d['cpp'], 'base': d['base'], 'modvar': mv, 'name': d['name'],
                     'instance': bool(d['enums']), 'defs': []}
                for x in d['ctors']:
                    c['defs'].append(('init', tuple(nows(a[0]) for a in x['args']),
                                      tuple((a[1], a[2]) for a in x['args'])))
                for kind, lst in (('def', d['methods']), ('def_static', d['statics'])):
                    for x in lst:
                        callee = x['callee']
                        if callee in ('serialize', 'serializable'):
                            if ser:
                                c['defs'] += [('serialize',), ('deserialize',), ('pickle',)]
                                if d['cpp'] not in exp['serializing']:
                                    exp['serializing'].append(d['cpp'])
                            continue
                        py = pyname_of(x['name'], callee, False)
                        c['defs'].append((kind, py, 'self->' if kind == 'def' else d['cpp'] + '::', nows(callee),
                                          tuple(nows(a[0]) for a in x['args']), tuple(a[1] for a in x['args']),
                                          tuple((a[1], a[2]) for a in x['args']), x['ret'] != 'void'))
                        if x['name'] == 'print':
                            c['defs'].append(('repr', tuple(nows(a[0]) for a in x['args']),
                                              tuple(a[1] for a in x['args']),
                                              tuple((a[1], a[2]) for a in x['args'])))
                for x in d['dunders']:
                    c['defs'].append(('dunder', '__%s__' % x['name'], tuple(nows(a[0]) for a in x['args']),
                                      tuple(a[1] for a in x['args'])))
                for (ty, name, default) in d['props']:
                    c['defs'].append(('def_readonly' if ty.startswith('const ') else 'def_readwrite', name,
                                      '&%s::%s' % (nows(d['cpp']), name)))
                for x in d['ops']:
                    if x['op'] == '[]':
                        c['defs'].append(('opfn', '__getitem__', '&%s::operator[]' % nows(d['cpp'])))
                    elif x['op'] == '()':
                        c['defs'].append(('opfn', '__call__', '&%s::operator()' % nows(d['cpp'])))
                    elif not x['args']:
                        c['defs'].append(('op', '%spy::self' % x['op']))
                    else:
                        c['defs'].append(('op', 'py::self %s py::self' % x['op']))
                exp['classes'].append(c)
                for (ename, vals) in d['enums']:
                    exp['enums'].append((nows(d['cpp'] + '::' + ename), d['name'].lower(), ename,
                                         tuple((v, nows(d['cpp'] + '::' + ename + '::' + v)) for v in vals)))
            elif k == 'decl':
                if d['cpp'] in ignore:
                    continue
                exp['classes'].append({'cpp': d['cpp'], 'base': None, 'modvar': mv, 'name': d['name'],
                                       'instance': False, 'defs': []})
            elif k == 'pass' and d['what'] == 'var':
                exp['attrs'].append((mv, d['name']))
            elif k == 'pass' and d['what'] == 'enum':
                cpp = '::'.join(path + (d['name'],))
                exp['enums'].append((cpp, mv, d['name'], tuple((v, cpp + '::' + v) for v in d['vals'])))
            elif k == 'func':
                name = d['name']
                if name in PY_KEYWORDS + ['print']:
                    name += '_'
                exp['functions'].append((mv, name, '::'.join(path) + '::' + nows(d['callee']),
                                         tuple(nows(a[0]) for a in d['args']), tuple(a[1] for a in d['args']),
                                         tuple((a[1], a[2]) for a in d['args']), d['ret'] != 'void'))
    rec(None, desc, ())
    return exp


def normalize(inv):
    """extractor output -> same vocabulary as expected()."""
    out = {'submodules': [(s['var'], s['parent'], s['name']) for s in inv['submodules']],
           'classes': [], 'enums': [], 'attrs': [(a['modvar'], a['name']) for a in inv['attrs']],
           'functions': [], 'includes': [i.strip().strip('"') for i in inv['includes']],
           'attr_values': [(a['modvar'], a['name'], a['value']) for a in inv['attrs']]}
    for c in inv['classes']:
        n = {'cpp': ws(c['cpp']), 'base': ws(c['base']) if c['base'] else None, 'modvar': c['modvar'],
             'name': c['name'], 'instance': bool(c['instance']), 'defs': [], 'holder': nows(c['holder']),
             'instance_var': c['instance']}
        for d in c['defs']:
            k = d['kind']
            if k == 'init':
                n['defs'].append(('init', tuple(nows(t) for t in d['types']), tuple(d['pyargs'])))
            elif k in ('def_readwrite', 'def_readonly'):
                n['defs'].append((k, d['name'], nows(d['target'])))
            elif k == 'pickle':
                n['defs'].append(('pickle',))
            elif k == 'op':
                n['defs'].append(('op', d['expr']))
            elif 'target' in d:
                n['defs'].append(('opfn', d['name'], nows(d['target'])))
            elif d['name'] in ('serialize', 'deserialize') and 'gtsam::' + d['name'] in d['body']:
                n['defs'].append((d['name'],))
            elif d['name'] == '__repr__' and 'gtsam::RedirectCout' in d['body']:
                n['defs'].append(('repr', tuple(nows(t) for t, _ in d['params'][1:]),
                                  tuple(nm for _, nm in d['params'][1:]), tuple(d['pyargs']),
                                  ))
            elif d['name'].startswith('__') and d['name'].endswith('__') and d['name'][2:-2] in ('len', 'contains', 'iter'):
                n['defs'].append(('dunder', d['name'], tuple(nows(t) for t, _ in d['params'][1:]),
                                  tuple(nm for _, nm in d['params'][1:])))
            else:
                call = d.get('call')
                params = d['params']
                if k == 'def':
                    params = params[1:]
                recv = call['receiver'] if call else '?'
                callee = nows(call['callee']) if call else '?'
                if k == 'def_static' and call:
                    # Class::callee
                    cpp = nows(c['cpp']) + '::'
                    if callee.startswith(cpp):
                        recv, callee = ws(c['cpp']) + '::', callee[len(cpp):]
                n['defs'].append((k, d['name'], recv, callee, tuple(nows(t) for t, _ in params),
                                  tuple(nm for _, nm in params), tuple(d['pyargs']), bool(call and call['ret'])))
        out['classes'].append(n)
    for e in inv['enums']:
        out['enums'].append((nows(e['cpp']), e['scopevar'], e['name'], tuple((a, nows(b)) for a, b in e['values'])))
    for f in inv['functions']:
        call = f.get('call')
        out['functions'].append((f['modvar'], f['name'], nows(call['callee']) if call else '?',
                                 tuple(nows(t) for t, _ in f['params']), tuple(nm for _, nm in f['params']),
                                 tuple(f['pyargs']), bool(call and call['ret'])))
    return out


def inventory_view(n):
    """C03 view: what is exposed where under which name (multiset of tuples)."""
    from collections import Counter
    inv = Counter()
    for s in n['submodules']:
        inv[('submodule', s[1], s[2])] += 1
    for c in n['classes']:
        inv[('class', c['modvar'], c['name'], nows(c['cpp']))] += 1
        for d in c['defs']:
            if d[0] == 'init':
                inv[('init', c['name'], len(d[1]))] += 1
            elif d[0] in ('def', 'def_static'):
                inv[(d[0], c['name'], d[1], len(d[4]))] += 1
            elif d[0] in ('def_readonly', 'def_readwrite'):
                inv[('property', c['name'], d[1])] += 1
            elif d[0] in ('op', 'opfn'):
                inv[('operator', c['name'], d[1])] += 1
            elif d[0] == 'dunder':
                inv[('dunder', c['name'], d[1])] += 1
            elif d[0] == 'repr':
                inv[('def', c['name'], '__repr__', len(d[1]))] += 1
            else:
                inv[(d[0], c['name'])] += 1
    for e in n['enums']:
        inv[('enum', e[1], e[2])] += 1
        for v in e[3]:
            inv[('enumerator', e[1], e[2], v[0])] += 1
    for a in n['attrs']:
        inv[('attr', a[0], a[1])] += 1
    for f in n['functions']:
        inv[('function', f[0], f[1], len(f[3]))] += 1
    return inv


def exp_norm(exp):
    """bring expected() into exactly the shape normalize() yields (whitespace rules)."""
    out = dict(exp)
    out['classes'] = []
    for c in exp['classes']:
        n = dict(c)
        n['cpp'] = ws(c['cpp'])
        n['base'] = ws(c['base']) if c['base'] else None
        n['defs'] = list(c['defs'])
        out['classes'].append(n)
    out['enums'] = [(nows(a), b, c, d) for a, b, c, d in exp['enums']]
    return out
