"""Workload shared by C02 / C08 / C13: template-heavy modules through the real instantiator."""
import random
from . import gen, render, ref_inst, spec as S

C02_FIELDS = ('args', 'ret', 'props', 'ops', 'base', 'dunders')   # type spellings inside members
C08_FIELDS = ('name', 'cpp', 'callee', 'order/identity', 'count', 'kind', 'virtual', 'enums', 'const',
              'vals', 'type', 'default', 'missing-or-different', 'len')


def make_case(seed, tier, **feat):
    r = random.Random(seed)
    knobs = gen.Knobs.thorough() if (tier == 'thorough' and r.random() < 0.4) else gen.Knobs.quick()
    knobs.items = r.choice([2, 3, 4])
    knobs.ns_depth = r.choice([1, 2, 3])
    knobs.members = r.choice([3, 5, 7])
    f = dict(param_use=0.45, this_use=0.12, class_template_p=0.75, member_template_p=0.35,
             typedefs=True, includes=False, overloads=0.2, reopen_ns=0.2, inst_namesakes=0.15, clone_templates=0.3, capture_names=0.25)
    f.update(feat)
    g = gen.WildGen(seed, knobs, **f)
    return g.module()


def instantiate(text):
    import gtwrap.interface_parser as parser
    import gtwrap.template_instantiator as inst
    tree = parser.Module.parseString(text)
    return inst.instantiate_namespace(tree)


def diff_category(d):
    """d = one tuple from ref_inst.compare -> 'C02' | 'C08'."""
    field = d[1] if len(d) > 1 else ''
    if isinstance(field, str):
        head = field.split('[')[0].split('.')[0]
        tail = field.split('.')[-1] if '.' in field else ''
        if head in ('methods', 'statics', 'ctors', 'ops', 'dunders'):
            if tail in ('args', 'ret') or field.endswith(']'):
                return 'C02'
            if tail in ('name', 'callee', 'const', 'op'):
                return 'C08'
            return 'C02'
        if head in ('props', 'base', 'args', 'ret'):
            return 'C02'
        if head == 'missing-or-different':
            inner = d[2]
            if isinstance(inner, tuple) and inner and isinstance(inner[0], str):
                return diff_category(('', inner[0]))
            return 'C08'
    return 'C08'


def stats(mod, acc):
    """how often parameters occur where (coverage of the property's positions)."""
    for path, it in S.walk_items(mod.items):
        if it.k == 'Class' and it.template:
            names = {p.name for p in it.template} | {'This'}
            acc.count('templated_classes')
            for m in it.members:
                mnames = names | {p.name for p in (getattr(m, 'template', None) or ())}
                types = [a.type for a in getattr(m, 'args', ())]
                r = getattr(m, 'ret', None)
                if r is not None:
                    types += [r.first, r.second] if r.k == 'Pair' else [r]
                if m.k == 'Prop':
                    types.append(m.type)
                for t in types:
                    for depth, how in ref_inst.param_depths(t, mnames):
                        acc.count('occ:%s:%s:d%d:%s%s' % (m.k, how, depth, 'c' if t.const else '-', t.marker or '-'))
            if it.base is not None:
                for depth, how in ref_inst.param_depths(it.base, names):
                    acc.count('occ:base:%s:d%d' % (how, depth))
        elif it.k == 'Func' and it.template:
            acc.count('templated_funcs')
            names = {p.name for p in it.template}
            for t in [a.type for a in it.args] + ([it.ret.first, it.ret.second] if it.ret.k == 'Pair' else [it.ret]):
                for depth, how in ref_inst.param_depths(t, names):
                    acc.count('occ:func:%s:d%d' % (how, depth))
        elif it.k == 'Typedef':
            acc.count('typedefs')


def nontrivial(mod):
    for path, it in S.walk_items(mod.items):
        if it.k in ('Class', 'Func') and it.template:
            return True
        if it.k == 'Typedef':
            return True
    return False
