"""Thin drivers around the real gtwrap entry points (the code under test)."""
import hashlib
import io
import os
import shutil
import tempfile
import contextlib

TPL = ("// harness module template\n{includes}\n\n{boost_class_export}\n\n{submodules}\n\n"
       "{module_def} {{\n    m_.doc() = \"pybind11 wrapper of {module_name}\";\n\n{submodules_init}\n\n"
       "{wrapped_namespace}\n\n}}\n")


def parse(text):
    import gtwrap.interface_parser as parser
    return parser.Module.parseString(text)


def instantiate(text):
    import gtwrap.template_instantiator as inst
    return inst.instantiate_namespace(parse(text))


def pybind_text(text, top=('',), ignore=(), ser=False, module='m', tpl=TPL, xml='', submodules=None,
                wrapper=None):
    """Output of the real PybindWrapper.wrap_file for one interface text (main-module form)."""
    from gtwrap.pybind_wrapper import PybindWrapper
    w = wrapper or PybindWrapper(module_name=module, top_module_namespaces=list(top),
                                 ignore_classes=list(ignore), module_template=tpl,
                                 use_boost_serialization=ser, xml_source=xml)
    with contextlib.redirect_stdout(io.StringIO()):
        return w.wrap_file(text, module_name=module, submodules=[] if submodules is None else list(submodules))


def matlab_tree(texts, module='m', ignore=(), ser=False, outdir=None, keep=False, top=('',)):
    """Runs the real MatlabWrapper.wrap on interface files holding `texts`; returns
    {relative path: content} of everything found under the output directory."""
    from gtwrap.matlab_wrapper import MatlabWrapper
    if isinstance(texts, str):
        texts = [texts]
    tmp = tempfile.mkdtemp(prefix='verif_ml_')
    try:
        files = []
        for i, t in enumerate(texts):
            p = os.path.join(tmp, 'in%d.i' % i)
            with open(p, 'w', encoding='utf-8') as f:
                f.write(t)
            files.append(p)
        out = outdir or os.path.join(tmp, 'out')
        os.makedirs(out, exist_ok=True)
        w = MatlabWrapper(module_name=module, top_module_namespace=list(top), ignore_classes=list(ignore),
                          use_boost_serialization=ser)
        with contextlib.redirect_stdout(io.StringIO()):
            w.wrap(files, path=out)
        return read_tree(out), w
    finally:
        if not keep:
            shutil.rmtree(tmp, ignore_errors=True)


def read_tree(root):
    out = {}
    for d, _, fs in os.walk(root):
        for f in fs:
            p = os.path.join(d, f)
            with open(p, 'rb') as fh:
                out[os.path.relpath(p, root)] = fh.read().decode('utf-8', 'replace')
    return out


def tree_hash(tree):
    hh = hashlib.sha256()
    for k in sorted(tree):
        hh.update(k.encode())
        hh.update(b'\0')
        hh.update(tree[k].encode())
        hh.update(b'\0')
    return hh.hexdigest()[:20]


def outcome(fn, *a, **kw):
    """('ok', value) or ('exc', 'Type: message')."""
    try:
        return ('ok', fn(*a, **kw))
    except Exception as e:
        return ('exc', '%s: %s' % (type(e).__name__, str(e)[:200]))
