"""Loaded by script subprocesses of C14 (via PYTHONPATH) to inject seeded delays at file-system
audit events (os.mkdir / write-mode open), widening the window between the tool's isdir test and
makedirs.  Harness-side only; nothing in the repository is edited."""
import os
import sys

_spec = os.environ.get('VERIF_DELAY')
if _spec:
    import random
    import time
    _seed, _max_ms = _spec.split(':')
    _r = random.Random(int(_seed) ^ os.getpid())
    _max = float(_max_ms) / 1000.0
    _log = os.environ.get('VERIF_DELAY_LOG')

    def _hook(event, args):
        if event == 'os.mkdir' or (event == 'open' and isinstance(args[1], str) and 'w' in args[1]):
            d = _r.random() * _max
            time.sleep(d)
            if _log:
                try:
                    fd = os.open(_log, os.O_WRONLY | os.O_APPEND | os.O_CREAT)
                    os.write(fd, ('%d %s %s\n' % (os.getpid(), event, args[0])).encode())
                    os.close(fd)
                except OSError:
                    pass

    sys.addaudithook(_hook)
