"""Projection of the real gtwrap parse tree into the harness model (vlib.spec).

Only public attributes of the real nodes are read.  `project()` also checks the
parent links: the namespace path recomputed from `.parent` must equal the nesting
path; mismatches are reported as ('parent', ...) problems.
"""
import gtwrap.interface_parser as parser
from gtwrap.interface_parser.type import TemplatedType, Type, Typename
from . import spec as S


def _marker(t):
    m = ''
    if t.is_shared_ptr:
        m += '*'
    if t.is_ptr:
        m += '@'
    if t.is_ref:
        m += '&'
    return m


def p_typename(tn):
    """Typename (possibly with .instantiations) -> T without qualifiers."""
    return S.T(str(tn.name), tuple(str(x) for x in tn.namespaces),
               tuple(p_typename(i) for i in tn.instantiations))


def p_type(t):
    if isinstance(t, TemplatedType):
        return S.T(str(t.typename.name), tuple(str(x) for x in t.typename.namespaces),
                   tuple(p_type(x) for x in t.template_params), bool(t.is_const), _marker(t))
    if isinstance(t, Type):
        return S.T(str(t.typename.name), tuple(str(x) for x in t.typename.namespaces),
                   tuple(p_typename(i) for i in t.typename.instantiations), bool(t.is_const), _marker(t))
    if isinstance(t, Typename):
        return p_typename(t)
    raise TypeError('not a type node: %r' % (t,))


def p_ret(rt):
    if rt.type2:
        return S.Pair(p_type(rt.type1), p_type(rt.type2), False)
    return p_type(rt.type1)


def p_args(al):
    return tuple(S.Arg(p_type(a.ctype), str(a.name), None if a.default is None else str(a.default))
                 for a in al.list())


def p_template(t):
    if not t:
        return None
    out = []
    for n, insts in zip(t.typenames, t.instantiations):
        # the tree stores an empty list both for "no list" and (impossible) "empty list"
        out.append(S.TParam(str(n), tuple(p_typename(i) for i in insts) if insts else None))
    return tuple(out)


def api_path(e):
    """the tool's own answer to 'which namespaces is this nested under' (namespaces() / full_namespaces()), without
    the leading empty name of the global namespace; None when the element offers no such method."""
    f = getattr(e, 'namespaces', None)
    if not callable(f):
        return None
    try:
        ns = [str(x) for x in f()]
    except Exception as ex:
        return ('raised %s' % type(ex).__name__,)
    while ns and ns[0] == '':
        ns = ns[1:]
    return tuple(ns)


def parent_path(e):
    out = []
    a = e.parent
    guard = 0
    while a and getattr(a, 'name', ''):
        out.insert(0, str(a.name))
        a = a.parent
        guard += 1
        if guard > 200:
            break
    return tuple(out)


class Projection:
    def __init__(self):
        self.problems = []

    def enum(self, e):
        return S.Enum(str(e.name), tuple(str(x.name) for x in e.enumerators), 'enum')

    def klass(self, c, path):
        if parent_path(c) != path:
            self.problems.append(('parent', 'class', c.name, parent_path(c), path))
        if api_path(c) not in (None, path):
            self.problems.append(('namespaces()', 'class', c.name, api_path(c), path))
        base = None
        if c.parent_class:
            base = p_type(c.parent_class)
        mem = []
        for x in c.ctors:
            mem.append(S.Ctor(str(x.name), p_args(x.args), p_template(x.template)))
        for x in c.methods:
            mem.append(S.Method(str(x.name), p_ret(x.return_type), p_args(x.args), bool(x.is_const),
                                p_template(x.template)))
        for x in c.static_methods:
            mem.append(S.Static(str(x.name), p_ret(x.return_type), p_args(x.args), p_template(x.template)))
        for x in c.properties:
            mem.append(S.Prop(p_type(x.ctype), str(x.name), None if x.default is None else str(x.default)))
        for x in c.operators:
            mem.append(S.Op(str(x.operator), p_ret(x.return_type), p_args(x.args)))
        for x in c.dunder_methods:
            mem.append(S.Dunder(str(x.name), p_args(x.args)))
        for x in c.enums:
            mem.append(self.enum(x))
        for kind, lst in (('ctor', c.ctors), ('method', c.methods), ('static', c.static_methods),
                          ('prop', c.properties)):
            for m in lst:
                if m.parent is not c:
                    self.problems.append(('parent', kind, str(m.name), repr(m.parent)[:40], c.name))
        return S.Class(str(c.name), tuple(mem), p_template(c.template), bool(c.is_virtual), base)

    def item(self, e, path):
        if isinstance(e, parser.Namespace):
            if parent_path(e) != path:
                self.problems.append(('parent', 'namespace', e.name, parent_path(e), path))
            return S.Namespace(str(e.name), tuple(self.item(c, path + (str(e.name),)) for c in e.content))
        if isinstance(e, parser.Class):
            return self.klass(e, path)
        if isinstance(e, parser.GlobalFunction):
            if parent_path(e) != path:
                self.problems.append(('parent', 'function', e.name, parent_path(e), path))
            return S.Func(str(e.name), p_ret(e.return_type), p_args(e.args), p_template(e.template))
        if isinstance(e, parser.Enum):
            if parent_path(e) != path:
                self.problems.append(('parent', 'enum', e.name, parent_path(e), path))
            if api_path(e) not in (None, path):
                self.problems.append(('namespaces()', 'enum', e.name, api_path(e), path))
            return self.enum(e)
        if isinstance(e, parser.Variable):
            if parent_path(e) != path:
                self.problems.append(('parent', 'variable', e.name, parent_path(e), path))
            return S.Var(p_type(e.ctype), str(e.name), None if e.default is None else str(e.default))
        if isinstance(e, parser.TypedefTemplateInstantiation):
            if parent_path(e) != path:
                self.problems.append(('parent', 'typedef', e.new_name, parent_path(e), path))
            return S.Typedef(p_typename(e.typename), str(e.new_name))
        if isinstance(e, parser.ForwardDeclaration):
            if parent_path(e) != path:
                self.problems.append(('parent', 'fwd', e.name, parent_path(e), path))
            par = p_typename(e.parent_type) if e.parent_type else None
            return S.Fwd(str(e.typename.name), tuple(str(x) for x in e.typename.namespaces),
                         bool(e.is_virtual), par)
        if isinstance(e, parser.Include):
            return S.Include(str(e.header))
        raise TypeError('unknown node %r' % (e,))

    def module(self, tree):
        return S.Module(tuple(self.item(c, ()) for c in tree.content))


def project(tree):
    p = Projection()
    m = p.module(tree)
    return m, p.problems


# ---------------------------------------------------------------- normal form of a model
# The tree regroups class members by kind and forgets `enum class` vs `enum` and the
# optional `std::` before pair (by design); `normalize` maps a generator model to what a
# faithful parse must project to.

_KIND_ORDER = ['Ctor', 'Method', 'Static', 'Prop', 'Op', 'Dunder', 'Enum']


def n_type_plain(t):
    """drop const/marker at every depth (what a Typename keeps)."""
    return S.T(t.name, t.ns, tuple(n_type_plain(a) for a in t.args))


def n_ret(r):
    if r.k == 'Pair':
        return S.Pair(r.first, r.second, False)
    return r


def n_member(m):
    if m.k == 'Enum':
        return S.Enum(m.name, m.enumerators, 'enum')
    if m.k in ('Method', 'Static', 'Op'):
        return type(m)(**{**m.__dict__, 'ret': n_ret(m.ret)})
    return m


def normalize_item(it):
    if it.k == 'Namespace':
        return S.Namespace(it.name, tuple(normalize_item(x) for x in it.items))
    if it.k == 'Class':
        groups = {k: [] for k in _KIND_ORDER}
        for m in it.members:
            groups[m.k].append(n_member(m))
        mem = tuple(m for k in _KIND_ORDER for m in groups[k])
        return S.Class(it.name, mem, it.template, it.virtual, it.base)
    if it.k == 'Enum':
        return S.Enum(it.name, it.enumerators, 'enum')
    if it.k == 'Func':
        return S.Func(it.name, n_ret(it.ret), it.args, it.template)
    if it.k == 'Typedef':
        return S.Typedef(n_type_plain(it.type), it.name)
    return it


def normalize(mod):
    return S.Module(tuple(normalize_item(x) for x in mod.items))


def first_diff(a, b, path=''):
    """First structural difference between two models, as (path, expected, actual)."""
    from dataclasses import is_dataclass, fields
    if type(a) is not type(b):
        return (path, _short(a), _short(b))
    if is_dataclass(a):
        for f in fields(a):
            d = first_diff(getattr(a, f.name), getattr(b, f.name), path + '.' + f.name)
            if d:
                return d
        return None
    if isinstance(a, (tuple, list)):
        for i, (x, y) in enumerate(zip(a, b)):
            d = first_diff(x, y, '%s[%d]' % (path, i))
            if d:
                return d
        if len(a) != len(b):
            return (path + '.len', len(a), len(b))
        return None
    return None if a == b else (path, _short(a), _short(b))


def _short(x):
    s = repr(x)
    return s if len(s) < 200 else s[:200] + '...'
