"""Witness probes of known findings (committed in known_findings.json, never written at run time).

Each open finding of a property carries a witness and the *signature* (normalised
expected-vs-actual difference) recorded when it was triaged.  The probe replays the witness
through the same monitor as the random workload:
  same signature      -> KNOWN-FINDING line
  witness conforms    -> nothing printed ("not reproduced" noted in the evidence)
  different signature -> VIOLATION (a new defect on the same input)
"""
from .runner import load_known


def run_probes(ctx, pid, handlers):
    for k in load_known(pid):
        if k.get('status') != 'open':
            continue
        hnd = handlers.get(k['probe'])
        if hnd is None:
            ctx.acc.inconclusive.append('no probe handler %s for finding %s' % (k['probe'], k['key']))
            continue
        ctx.acc.count('known_probes')
        try:
            sig = hnd(k['witness'], ctx)
        except Exception as e:  # the probe itself crashed: treat the exception as the observation
            sig = 'exception %s: %s' % (type(e).__name__, str(e)[:120])
        if sig is None:
            ctx.acc.notes.append('known finding %s not reproduced (witness conforms)' % k['key'])
        elif _match(sig, k['signature']):
            ctx.acc.known_finding(k['key'], k['what'])
        else:
            ctx.acc.violation({'probe': k['probe'], 'finding': k['key'], 'witness': k['witness']},
                              {'what': 'witness of known finding %s fails differently' % k['key'],
                               'expected_signature': k['signature'], 'observed': sig})


def _match(sig, expected):
    if isinstance(expected, list):
        return any(_match(sig, e) for e in expected)
    return sig == expected or (expected.endswith('*') and sig.startswith(expected[:-1]))
