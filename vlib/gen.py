"""Seeded random generator of interface models.

`WildGen` draws from the whole documented dialect with arbitrary (unresolved) type
names: used where only parsing / instantiation is exercised.  Feature switches keep the
*flagged* constructs (constructs that hit a known defect of the tool) out of the clean
workload; each can be turned on for probes.
"""
import random
from . import spec as S

LOWER = ["foo", "bar", "x", "key_", "a1", "noiseModel", "value", "_p", "intx", "constant", "classy",
         "doubleValue", "static_x", "virtualBase", "pairwise", "templateX", "operatorX", "enumerate",
         "namespace_", "voidp", "charlie", "unsigned_", "size_t_", "std_", "t", "u", "n", "thisOne",
         "structure", "typedefd", "includeMe", "boolean", "floaty", "pose", "kGravity"]
UPPER = ["Foo", "Bar", "Baz", "X", "Pose3", "Val", "K9", "Tensor", "TT", "Type", "Value", "Constant",
         "ClassY", "Int", "Void", "Pair", "Template", "Operator", "Matrix", "Vector", "Point2", "N",
         "StaticThing", "U", "T1", "This1", "Std", "Enumeration"]
DEFAULTS = ['0', '1', '-9.81', '1e-9', '"a;b"', '"x,y"', '"hello world"', 'gtsam::Pose3()', 'f(1, 2)',
            '{1, 2, 3}', 'std::vector<int>{1,2}', "';'", "','", 'a::b::C', '(1+2)*3', 'Foo<int, double>()',
            'nullptr', 'true', 'ns::Kind::A', 'x[3]', '"(unbalanced in quotes"', 'A{B(1), C<2>()}', '-1',
            'std::make_shared<Q>(1, "s")', 'sizeof(int)', '"}"', "'{'", '1 + 2', 'a ? b : c', 'M<N<3>>()',
            # verbatim means verbatim: runs of blanks, tabs and line breaks inside the expression
            '"two  spaces   here"', 'f(1,   2)', 'gtsam::Pose3(1,\n      2)', '"tab\there"', 'a  +\tb', '{ 1,\n2 }',
            # comment openers inside literals are text, and so is a parameter's spelling
            '"http://gtsam.org/doc"', '"/* not a comment */"', "'/'", '"a // b"', '1 / 2', '"T and U"', "'T'"]
HEADERS = ['a.h', 'gtsam/geometry/Pose3.h', 'x/y z.hpp', 'vector', 'my-lib/file_1.h',
           # names contained in one another
           'linalg/FastVector.h', 'Vector.h', 'my_util.h', 'util.h', 'Pose3.h']
PARAM_NAMES = ['T', 'U', 'POSE', 'CALIBRATION', 'N', 'Val', 'TT', 'K', 'D', 'V']
CONCRETE_BASIC = ['double', 'int', 'size_t', 'bool', 'float', 'char', 'unsigned char', 'string']


class Knobs:
    def __init__(self, **kw):
        self.ns_depth = 3
        self.items = 5
        self.members = 7
        self.params = 4
        self.tparams = 2
        self.inst_len = 3
        self.type_depth = 3
        self.inst_cap = 24
        self.__dict__.update(kw)

    @staticmethod
    def quick():
        return Knobs()

    @staticmethod
    def thorough():
        return Knobs(ns_depth=6, items=9, members=12, params=7, tparams=3, inst_len=5, type_depth=6)


class WildGen:
    def __init__(self, seed, knobs=None, **features):
        self.r = random.Random(seed)
        self.k = knobs or Knobs()
        self.n = 0
        f = dict(
            templates=True, typedefs=False, op_eq=True,       # op_eq: operator== (D21, repaired: was read as a property)
            dunder_any=False,                                # names other than len/contains/iter
            numeric_args=True, defaults=True, pair=True, includes=True, fwd=True, enums=True,
            variables=True, operators=True, dunders=True, templated_types=True, inst_templated=True,
            lower_inst_names=True,                           # lower-case names with repeated first letter (D4, repaired)
            unsigned_char_in_inst=True,                      # D23 (repaired): blank in instantiated names
            std_pair=True, member_templates=True, bases=True, class_enums=True,
            # --- template-parameter occurrences inside member types (TemplGen)
            param_use=0.0,             # probability that a type position mentions a parameter in scope
            param_depth=9,             # deepest template-argument depth at which a parameter may occur (D1, repaired)
            scoped=True,               # T::Value at depth 0
            scoped_deep=True,          # T::Value inside template arguments (D45, repaired)
            scoped_substring=True,     # scoped name containing the parameter's spelling (T::Type) (D2, repaired)
            scoped_member_templated=True,   # T::Rebind<int> (D54, repaired)
            scoped_templated=True,     # scoped use of a parameter bound to a templated concrete type (D46, repaired)
            this_use=0.0, this_in_args=True,    # D3 (repaired): vector<This>
            this_in_base=True,         # D38 (repaired): class X : B<This>
            func_templated_inst=True,  # function template instantiated with a templated argument (D37, repaired)
            near_miss=True,            # identifiers that contain a parameter's spelling
            dunder_param_args=True,    # dunder-method arguments mention template parameters (D39, repaired)
            multiline_defaults=True,   # default values containing a line break (the line-oriented MATLAB extractors of
                                       # the harness cannot read routines that contain them: switched off there)
            special_names=0.0,         # python keywords / ipython names / print / serialize as member names
            qualified_param_name_deep=False,   # D49: ns::T inside template arguments, T a parameter in scope
            serialize_p=0.0,           # probability that a class declares the serialize() / serializable() marker
            ns_namesakes=0.0,          # probability that a namespace takes the name of a namespace with another parent
            typedef_repeats_listed=0.25,   # probability that a typedef's arguments are a combination of the template's lists
            capture_names=0.0,         # probability that a nested argument of an instantiation value is named like a parameter
            clone_templates=0.0,       # probability that a templated class is followed by a copy under another name
            inst_namesakes=0.0,        # probability that an instantiation list holds two arguments of one simple name
            enum_namesakes=0.0,        # probability that an enum takes the name of an enum of another scope
            overloads=0.0,             # probability that a method / static method reuses an earlier name of its class
                                       # (incl. the const / non-const pair of one signature)
            reopen_ns=0.0,             # probability that a namespace is written as two blocks (D6, repaired)
        )
        f.update(features)
        self.f = f
        self.scope_params = []   # template parameter names currently in scope
        self.scoped_ok = {}      # param -> may be used as T::X (its concrete types are not templated)
        self.in_class = False
        self.ns_path = ()
        self._ns_children = {}   # parent path -> names of the namespaces generated below it
        self._enum_names = []    # (scope key, name) of the enums generated so far
        self._funcs = [[]]       # names of the free functions generated so far, per open namespace

    # ---- names
    def ident(self, upper=False):
        self.n += 1
        pool = UPPER if upper else LOWER
        return "%s%d" % (self.r.choice(pool), self.n)

    SPECIAL = ['lambda', 'def', 'in', 'is', 'from', 'global', 'pass', 'del', 'raise', 'import', 'as', 'with',
               'yield', 'None', 'True', 'False', 'elif', 'except', 'finally', 'nonlocal', 'and', 'or', 'not',
               'svg', 'png', 'jpeg', 'html', 'javascript', 'markdown', 'latex', 'print', 'serialize',
               'serializable', 'insert', 'pickle', 'printx', 'Print', 'lambda_',
               # names the MATLAB generator uses itself for the serialization support
               'string_serialize', 'string_deserialize']

    def member_name(self, upper=False, role='method'):
        if self.r.random() < self.f['special_names']:
            pool = self.SPECIAL + ['print'] * 4
            if role == 'static':
                pool = [x for x in pool if x not in ('serialize', 'serializable')]
            return self.r.choice(pool)
        return self.ident(upper)

    def typename(self):
        ns = tuple(self.ident() for _ in range(self.r.choice([0, 0, 1, 1, 2, 3])))
        return ns, self.ident(True)

    # ---- types
    def type(self, depth=0, allow_templ=True, allow_basic=True, qualifiers=True):
        r = self.r
        const = qualifiers and r.random() < 0.3
        marker = r.choice(['', '', '', '*', '@', '&']) if qualifiers else ''
        occ = self._occurrence(depth, const, marker, allow_templ)
        if occ is not None:
            return occ
        if allow_templ and self.f['templated_types'] and depth < self.k.type_depth and r.random() < 0.35:
            ns, name = self.typename()
            args = tuple(self.type(depth + 1, qualifiers=qualifiers) for _ in range(r.choice([1, 1, 2, 3])))
            return S.T(name, ns, args, const, marker)
        if allow_basic and r.random() < 0.4:
            return S.T(r.choice(S.BASIC[1:]), (), (), const, marker)
        ns, name = self.typename()
        return S.T(name, ns, (), const, marker)

    def _occurrence(self, depth, const, marker, allow_templ=True):
        r = self.r
        f = self.f
        if self.scope_params and r.random() < f['param_use']:
            p = r.choice(self.scope_params)
            if r.random() < 0.25 and f['scoped'] and (depth == 0 or f['scoped_deep']) and \
                    (self.scoped_ok.get(p, False) or f['scoped_templated']):
                inner = r.choice(['Value', 'Jacobian', 'shared_ptr', 'Inner'])
                if f['scoped_substring'] and r.random() < 0.5:
                    inner = r.choice([p + 'ype', 'x' + p, p + p, p.lower() + p])
                elif p in inner:
                    inner = 'Q'
                if depth > 0 and inner in self.scope_params and not f['qualified_param_name_deep']:
                    inner = 'Q'      # T::TT inside template arguments with TT another parameter in scope: D49
                extra = (self.r.choice(['Sub', 'detail']),) if r.random() < 0.2 else ()
                targs = ()
                if f['scoped_member_templated'] and allow_templ and r.random() < 0.2 and depth < self.k.type_depth:
                    # the member is itself a template-id: T::Rebind<int>, T::Map<T, U> (D54, repaired); `This` is not
                    # used inside its arguments (the scoped rewrite does not look for it there)
                    hold = self.in_class
                    self.in_class = False
                    targs = tuple(self.type(depth + 1, qualifiers=False) for _ in range(r.choice([1, 1, 2])))
                    self.in_class = hold
                return S.T(inner, (p,) + extra, targs, const, marker)
            if depth <= f['param_depth']:
                return S.T(p, (), (), const, marker)
        if self.in_class and r.random() < f['this_use']:
            if r.random() < 0.5:
                if depth == 0 or f['this_in_args']:
                    return S.T('This', (), (), const, marker)
            else:
                # documented spellings: This::X at global scope, ns::This::X inside ns
                return S.T(r.choice(['Value', 'Verbosity', 'Sub']), tuple(self.ns_path) + ('This',), (),
                           const, marker)
        if self.scope_params and f['near_miss'] and r.random() < 0.15:
            p = r.choice(self.scope_params)
            nm = r.choice([p + 'x', 'x' + p, p + p, p + '_', p + '1', 'My' + p])
            ns = r.choice([(), (), ('ns' + p,), (p + 'ns', 'q')])
            if nm in self.scope_params:
                # the near miss happens to be another parameter in scope (T, TT): unqualified it *is* that
                # parameter; qualified (nsT::TT) it is a foreign name, which the tool keeps at depth 0 (D48,
                # repaired) but still rewrites inside template arguments (D49, pinned by a golden file)
                if not ns or (depth > 0 and not f['qualified_param_name_deep']):
                    return None
            return S.T(nm, ns, (), const, marker)
        return None

    def plain_type(self, depth=0):
        """type without qualifiers at any depth (instantiation / typedef arguments)."""
        r = self.r
        if self.f['inst_templated'] and depth < min(self.k.type_depth, 3) and r.random() < 0.25:
            ns, name = self.typename()
            return S.T(name, ns, tuple(self.plain_type(depth + 1) for _ in range(r.choice([1, 1, 2]))))
        if self.f['numeric_args'] and r.random() < 0.12:
            return S.T(str(r.randint(0, 99)))
        if depth > 0 and r.random() < self.f['capture_names']:
            # a concrete type whose own template argument is spelled like a template parameter of some declaration
            # (substitution must not descend into what it has just put in: capture-free)
            return S.T(r.choice(PARAM_NAMES))
        if r.random() < 0.35:
            # `unsigned char` is no Typename: the grammar takes it only as a template argument of an argument
            pool = [b for b in CONCRETE_BASIC if (self.f['unsigned_char_in_inst'] and depth > 0) or b != 'unsigned char']
            return S.T(r.choice(pool))
        if self.f['lower_inst_names'] and r.random() < 0.15:
            # lower-case type names, some with a repeated first letter
            nm = r.choice(['optional', 'myMatrix', 'aab', 'isotropic', 'eigenVec', 'dd', 'vectorOfv'])
            ns = r.choice([(), ('std',), ('noiseModel',)])
            if nm == 'optional' and depth < 2:
                return S.T(nm, ('std',), (self.plain_type(depth + 1),))
            return S.T(nm + str(r.randint(0, 9)), ns)
        ns, name = self.typename()
        return S.T(name, ns)

    def default(self):
        d = self.r.choice(DEFAULTS)
        while not self.f['multiline_defaults'] and '\n' in d:
            d = self.r.choice(DEFAULTS)
        return d

    def args(self, allow_default=True, maxn=None):
        n = self.r.randint(0, maxn if maxn is not None else self.k.params)
        if self.r.random() < 0.3:
            n = min(n, 1)
        out = []
        defaulting = False
        for i in range(n):
            if allow_default and self.f['defaults'] and (defaulting or self.r.random() < 0.2):
                defaulting = True
            nm = self.ident()
            if self.r.random() < self.f['special_names'] * 0.3:
                kw = self.r.choice(['lambda', 'in', 'from', 'pass', 'is', 'def', 'global'])
                if kw not in [a.name for a in out]:
                    nm = kw
            out.append(S.Arg(self.type(), nm, self.default() if defaulting else None))
        return tuple(out)

    def ret(self):
        r = self.r
        if r.random() < 0.2:
            return S.VOID
        if self.f['pair'] and r.random() < 0.25:
            return S.Pair(self.type(allow_templ=False), self.type(allow_templ=False),
                          self.f['std_pair'] and r.random() < 0.5)
        return self.type()

    def inst_list(self):
        n = self.r.randint(1, self.k.inst_len)
        out = []
        seen = set()
        for _ in range(n * 3):
            t = self.plain_type()
            key = inst_name(t).lower()
            if key in seen:
                continue
            if not self.f['lower_inst_names'] and _d4_sensitive(inst_name(t)):
                continue
            seen.add(key)
            out.append(t)
            if len(out) == n:
                break
        if out and self.r.random() < self.f['inst_namesakes']:
            # two arguments that differ only in their namespace (geo::Pose, nav::Pose): distinct instantiations
            # that get the same generated name
            base = [t for t in out if not t.args and t.name not in CONCRETE_BASIC and not t.name[0].isdigit()]
            if base:
                t = self.r.choice(base)
                out.append(S.T(t.name, (self.ident(),) + tuple(t.ns[:1])))
        return tuple(out) or (S.T('double'),)

    def template(self, with_lists=None, maxp=None, plain_insts=False):
        n = self.r.randint(1, maxp or self.k.tparams)
        names = self.r.sample(PARAM_NAMES, n)
        out = []
        total = 1
        for nm in names:
            wl = (self.r.random() < 0.7) if with_lists is None else with_lists
            insts = None
            if wl:
                insts = self.inst_list()
                if plain_insts:
                    insts = tuple(t for t in insts if not t.args) or (S.T('double'),)
                while total * len(insts) > self.k.inst_cap and len(insts) > 1:
                    insts = insts[:-1]
                total *= len(insts)
            out.append(S.TParam(nm + 'p' + str(self.r.randint(0, 3)) if self.r.random() < 0.3 else nm, insts))
        # parameter names must be distinct
        if len({p.name for p in out}) != len(out):
            out = [S.TParam(p.name + '_%d' % i, p.insts) for i, p in enumerate(out)]
        return tuple(out)

    @staticmethod
    def _scoped_ok_of(tparams):
        # a parameter without list can be bound by a typedef later: add_typedefs picks plain
        # concrete types for parameters that are used as a scope
        return {p.name: (p.insts is None or all(not t.args for t in p.insts)) for p in (tparams or ())}

    def enum(self, scope=None):
        """scope: key of the declaring scope (namespace path or class); with enum_namesakes an enum may take the
        name of an enum of *another* scope (a::Mode, b::Mode, C::Mode are different enums)."""
        kw = self.r.choice(['enum', 'enum class', 'enum struct'])
        name = None
        if self.r.random() < self.f['enum_namesakes']:
            here = {n for sc, n in self._enum_names if sc == scope}
            cand = sorted({n for sc, n in self._enum_names if sc != scope} - here)
            if cand:
                name = self.r.choice(cand)
        if name is None:
            name = self.ident(True)
        self._enum_names.append((scope, name))
        return S.Enum(name, tuple(self.ident(self.r.random() < 0.5)
                                  for _ in range(self.r.choice([1, 2, 4, 7]))), kw)

    def operator(self, cname):
        r = self.r
        ops = [o for o in S.OPERATORS if self.f['op_eq'] or o != '==']
        op = r.choice(ops)
        ns, name = self.typename()
        same = S.T(name, ns)
        if op in ('()', '[]'):
            return S.Op(op, self.ret() if r.random() < 0.5 else self.type(), (S.Arg(self.type(), self.ident()),))
        this = self.in_class and r.random() < 0.3       # the class itself, spelled This (replaced in every instantiation)
        if r.random() < 0.15:
            # a unary operator whose result type needs instantiation although it has no operand
            rt = S.T('This') if (self.in_class and r.random() < 0.6) else \
                (S.T(r.choice(self.scope_params)) if self.scope_params else same)
            return S.Op(r.choice('+-'), rt, ())
        if op in '+-' and r.random() < 0.3:
            return S.Op(op, S.T('This') if this else same, ())
        if this:
            return S.Op(op, S.T('This'), (S.Arg(S.T('This', (), (), True, '&'), self.ident()),))
        return S.Op(op, same, (S.Arg(S.T(name, ns, (), True, '&'), self.ident()),))

    def klass(self):
        r = self.r
        name = self.ident(True)
        values_like = False
        if self.f['special_names'] and not getattr(self, '_values_used', False) and r.random() < 0.04:
            # a class that merely shares its name with gtsam::Values (whose insert is bound in a special way)
            name, values_like, self._values_used = 'Values', True, True
        tmpl = self.template() if (self.f['templates'] and r.random() < self.f.get('class_template_p', 0.3)) else None
        virt = r.random() < 0.3
        base = None
        saved = (list(self.scope_params), self.in_class, dict(self.scoped_ok))
        self.scope_params = [p.name for p in (tmpl or ())]
        self.scoped_ok = self._scoped_ok_of(tmpl)
        class_scoped_ok = dict(self.scoped_ok)
        self.in_class = self.f['this_in_base']   # D38 (repaired): `This` inside a templated base
        if self.f['bases'] and r.random() < 0.35:
            if r.random() < 0.4 and self.f['templated_types']:
                ns, bn = self.typename()
                base = S.T(bn, ns, tuple(self.type(1, qualifiers=False) for _ in range(r.choice([1, 2]))))
            else:
                ns, bn = self.typename()
                base = S.T(bn, ns)
        self.in_class = True
        members = []
        kinds = ['ctor', 'method', 'method', 'method', 'static', 'prop']
        if self.f['operators']:
            kinds.append('op')
        if self.f['dunders']:
            kinds.append('dunder')
        if self.f['class_enums'] and self.f['enums']:
            kinds.append('enum')
        for _ in range(r.randint(0, self.k.members)):
            k = r.choice(kinds)
            mt = self.template(True if r.random() < 0.85 else None) if (self.f['templates'] and self.f['member_templates']
                                         and k in ('ctor', 'method', 'static')
                                         and r.random() < self.f.get('member_template_p', 0.2)) else None
            class_params = list(self.scope_params)
            if mt:
                taken = set(class_params)
                mt = tuple(S.TParam(p.name if p.name not in taken else p.name + 'm', p.insts) for p in mt)
                self.scope_params = class_params + [p.name for p in mt]
                self.scoped_ok = dict(class_scoped_ok)
                self.scoped_ok.update(self._scoped_ok_of(mt))
            if k == 'ctor':
                members.append(S.Ctor(name, self.args(), mt))
            elif k == 'method':
                prev = [m for m in members if m.k == 'Method']
                if prev and r.random() < self.f['overloads']:
                    o = r.choice(prev)
                    if r.random() < 0.4 and not mt:
                        # the const / non-const pair of one signature
                        members.append(S.Method(o.name, o.ret, o.args, not o.const, o.template))
                    else:
                        members.append(S.Method(o.name, self.ret(), self.args(), r.random() < 0.5, mt))
                else:
                    members.append(S.Method(self.member_name(), self.ret(), self.args(), r.random() < 0.5, mt))
            elif k == 'static':
                prev = [m for m in members if m.k == 'Static']
                nm = r.choice(prev).name if (prev and r.random() < self.f['overloads']) else \
                    self.member_name(r.random() < 0.5, 'static')
                members.append(S.Static(nm, self.ret(), self.args(), mt))
            elif k == 'prop':
                members.append(S.Prop(self.type(), self.ident(), self.default() if r.random() < 0.2 else None))
            elif k == 'op':
                members.append(self.operator(name))
            elif k == 'dunder':
                nm = r.choice(['len', 'contains', 'iter'] + (['foo', 'getitem'] if self.f['dunder_any'] else []))
                hold = (self.scope_params, self.in_class)
                if not self.f['dunder_param_args']:
                    self.scope_params, self.in_class = [], False
                a = (S.Arg(self.type(), self.ident()),) if nm == 'contains' else \
                    (self.args(False, 2) if nm in ('foo', 'getitem') else ())
                self.scope_params, self.in_class = hold
                members.append(S.Dunder(nm, a))
            elif k == 'enum':
                members.append(self.enum(('class', self.ns_path, name)))
            self.scope_params = class_params
        if values_like:
            members.append(S.Method('insert', S.VOID, (S.Arg(S.T('size_t'), 'j'), S.Arg(self.type(), self.ident())), False, None))
        if r.random() < self.f['serialize_p'] and not any(m.k == 'Method' and m.name in ('serialize', 'serializable')
                                                         for m in members):
            members.insert(r.randint(0, len(members)),
                           S.Method(r.choice(['serialize', 'serialize', 'serializable']), S.VOID, (), r.random() < 0.5, None))
            self.scoped_ok = dict(class_scoped_ok)
        self.scope_params, self.in_class, self.scoped_ok = saved
        return S.Class(name, tuple(members), tmpl, virt, base)

    def item(self, depth):
        r = self.r
        kinds = ['class', 'class', 'class', 'func', 'ns', 'ns']
        if self.f['enums']:
            kinds.append('enum')
        if self.f['variables']:
            kinds.append('var')
        if self.f['fwd']:
            kinds.append('fwd')
        if self.f['includes']:
            kinds.append('include')
        k = r.choice(kinds)
        if k == 'ns' and depth >= self.k.ns_depth:
            k = 'class'
        if k == 'class':
            return self.klass()
        if k == 'func':
            tmpl = self.template(plain_insts=not self.f['func_templated_inst']) if (
                self.f['templates'] and r.random() < self.f.get('class_template_p', 0.3)) else None
            saved = list(self.scope_params)
            saved_ok = dict(self.scoped_ok)
            self.scope_params = [p.name for p in (tmpl or ())]
            self.scoped_ok = self._scoped_ok_of(tmpl)
            scope_funcs = self._funcs[-1]
            fname = r.choice(scope_funcs) if (scope_funcs and r.random() < self.f['overloads']) else \
                self.member_name(r.random() < 0.3, 'static')
            if self.f['special_names'] and r.random() < 0.04:
                fname = 'pickle'      # a *method* of this name is skipped by the MATLAB generator, a function is not
            scope_funcs.append(fname)
            fn = S.Func(fname, self.ret(), self.args(), tmpl)
            self.scope_params = saved
            self.scoped_ok = saved_ok
            return fn
        if k == 'enum':
            return self.enum(('ns', self.ns_path))
        if k == 'var':
            return S.Var(self.type(), self.ident(), self.default() if r.random() < 0.5 else None)
        if k == 'fwd':
            ns, name = self.typename()
            par = None
            if r.random() < 0.4:
                pns, pn = self.typename()
                par = S.T(pn, pns)
            return S.Fwd(name, ns, r.random() < 0.4, par)
        if k == 'include':
            return S.Include(r.choice(HEADERS))
        name = self.ident()
        saved_path = self.ns_path
        here = self._ns_children.setdefault(tuple(saved_path), set())
        if r.random() < self.f['ns_namesakes']:
            # a namespace named like one that has another parent (a::detail, b::detail): different namespaces
            cand = sorted({n for par, names in self._ns_children.items() if par != tuple(saved_path) for n in names}
                          - here - set(saved_path))
            if cand:
                name = r.choice(cand)
        if self.f['ns_namesakes'] and len(saved_path) >= 2 and saved_path[0] not in here and r.random() < 0.35:
            name = saved_path[0]          # a namespace named like one of its ancestors: geo::util::geo
        here.add(name)
        self.ns_path = tuple(saved_path) + (name,)
        self._funcs.append([])
        items = tuple(self.item(depth + 1) for _ in range(r.randint(0, self.k.items)))
        self._funcs.pop()
        self.ns_path = saved_path
        return S.Namespace(name, items)

    def reopen(self, items):
        """split some namespaces into two blocks of the same name (a namespace that is opened again)."""
        r = self.r
        out, later = [], []
        for it in items:
            if it.k != 'Namespace':
                out.append(it)
                continue
            sub = self.reopen(it.items)
            if len(sub) >= 2 and r.random() < self.f['reopen_ns']:
                cut = r.randint(1, len(sub) - 1)
                out.append(S.Namespace(it.name, tuple(sub[:cut])))
                tail = S.Namespace(it.name, tuple(sub[cut:]))
                if r.random() < 0.5:
                    out.append(tail)          # directly behind the first block
                else:
                    later.append(tail)        # behind the remaining items of the enclosing scope
            else:
                out.append(S.Namespace(it.name, tuple(sub)))
        return out + later

    def clones(self, items):
        """a copy of a templated class under another name, next to the original: same parameter names, same lists,
        same member types (`This` and the class's own name are what differs between the two)."""
        out = []
        for it in items:
            out.append(it)
            if it.k == 'Namespace':
                out[-1] = S.Namespace(it.name, tuple(self.clones(list(it.items))))
            elif it.k == 'Class' and it.template and self.r.random() < self.f['clone_templates']:
                nm = self.ident(True)
                mem = tuple(S.Ctor(nm, m.args, m.template) if m.k == 'Ctor' else m for m in it.members)
                out.append(S.Class(nm, mem, it.template, it.virtual, it.base))
        return out

    def module(self):
        items = [self.item(0) for _ in range(self.r.randint(1, self.k.items))]
        if self.f['clone_templates']:
            items = self.clones(items)
        if self.f['reopen_ns']:
            items = self.reopen(items)
        mod = S.Module(tuple(items))
        if self.f['typedefs']:
            mod = add_typedefs(mod, self)
        return mod


def inst_name(t):
    """The tool's naming rule for one instantiation argument (Typename.instantiated_name)."""
    return t.name.replace(' ', '') + ''.join(inst_name(a) for a in t.args)


def _d4_sensitive(name):
    """names whose first character is lower-case and occurs again (D4: replace() capitalises all)."""
    return name[0].islower() and name[0].upper() != name[0] and name.count(name[0]) > 1


# ---------------------------------------------------------------- typedef insertion

def add_typedefs(mod, g, flagged_scopes=False):
    """Insert typedefs of class / function templates (and of forward-declared foreign
    templates) into the module.  Clean placement: same namespace as the template (before
    or after it) or a namespace nested inside the template's namespace that comes *after*...

    The tool resolves a typedef against the partially instantiated tree, so a template
    inside a namespace that has already been instantiated (an earlier sibling or earlier
    nested namespace) cannot be found (D5).  Unless flagged_scopes is set only the same
    namespace and enclosing namespaces of the typedef are used as homes of the template.
    """
    r = g.r

    def rec(items, path, enclosing_templates):
        items = list(items)
        # templates declared in this scope (without instantiation list on at least one param,
        # or with: both are legal typedef targets)
        local = []
        for it in items:
            if it.k == 'Class' and it.template:
                local.append(('class', path, it))
            elif it.k == 'Func' and it.template:
                local.append(('func', path, it))
        out = []
        for it in items:
            if it.k == 'Namespace':
                out.append(S.Namespace(it.name, tuple(rec(it.items, path + (it.name,),
                                                          enclosing_templates + local))))
            else:
                out.append(it)
        cands = local + ([] if g.f.get('typedef_same_ns') else enclosing_templates)
        if g.f.get('typedef_any_ns', True) and not g.f.get('typedef_same_ns'):
            # templates of any other namespace, declared before or after (D5, repaired: the tree used to be
            # searched while partly instantiated)
            cands = cands + [c for c in everywhere if c[0] == 'class' and c not in cands]
        # an overloaded name cannot be the target of a typedef ("Found more than one ...": loud and legitimate)
        cands = [c for c in cands if count_of[(c[1], c[2].name)] == 1]
        n_td = r.choice([0, 0, 1, 2]) if cands or g.f['fwd'] else 0
        for _ in range(n_td):
            if cands and r.random() < 0.8:
                kind, tpath, tmpl = r.choice(cands)
                targs = tuple(_concrete_arg(g, plain=_plain_needed(g, kind, tmpl, p.name)) for p in tmpl.template)
                if kind == 'class' and all(p.insts for p in tmpl.template) and r.random() < g.f['typedef_repeats_listed']:
                    # a typedef may also name a combination that the instantiation lists produce anyway: it still
                    # yields its own, additional instantiation carrying the typedef's name
                    targs = tuple(r.choice(p.insts) for p in tmpl.template)
                ty = S.T(tmpl.name, tpath, targs)
                name = g.ident(True) if kind == 'class' else g.ident(r.random() < 0.5)
                td = S.Typedef(ty, name)
            else:
                # foreign template: forward declaration + typedef
                fname = g.ident(True)
                out.insert(r.randint(0, len(out)), S.Fwd(fname, (), r.random() < 0.3, None)) if not path else \
                    out.insert(r.randint(0, len(out)), S.Fwd(fname, (), r.random() < 0.3, None))
                ty = S.T(fname, path, tuple(_concrete_arg(g) for _ in range(r.choice([1, 2]))))
                td = S.Typedef(ty, g.ident(True))
            out.insert(r.randint(0, len(out)), td)
        return out

    everywhere = []

    def collect(items, path):
        for it in items:
            if it.k == 'Class' and it.template:
                everywhere.append(('class', path, it))
            elif it.k == 'Func' and it.template:
                everywhere.append(('func', path, it))
            elif it.k == 'Namespace':
                collect(it.items, path + (it.name,))
    collect(mod.items, ())
    count_of = {}

    def count(items, path):
        for it in items:
            if it.k in ('Class', 'Func', 'Fwd'):
                count_of[(path, it.name)] = count_of.get((path, it.name), 0) + 1
            elif it.k == 'Namespace':
                count(it.items, path + (it.name,))
    count(mod.items, ())
    return S.Module(tuple(rec(mod.items, (), [])))


def _plain_needed(g, kind, tmpl, pname):
    from .ref_inst import param_depths
    if kind == 'func' and not g.f['func_templated_inst']:
        return True
    if g.f['scoped_templated']:
        return False
    types = []
    if kind == 'class':
        for m in tmpl.members:
            for a in getattr(m, 'args', ()):
                types.append(a.type)
            r = getattr(m, 'ret', None)
            if r is not None:
                types += [r.first, r.second] if r.k == 'Pair' else [r]
            if m.k == 'Prop':
                types.append(m.type)
        if tmpl.base is not None:
            types.append(tmpl.base)
    else:
        types = [a.type for a in tmpl.args] + ([tmpl.ret.first, tmpl.ret.second] if tmpl.ret.k == 'Pair' else [tmpl.ret])
    return any(how == 'scoped' for t in types for (_, how) in param_depths(t, {pname}))


def _concrete_arg(g, plain=False):
    for _ in range(20):
        t = g.plain_type()
        if plain and t.args:
            continue
        if g.f['lower_inst_names'] or not _d4_sensitive(inst_name(t)):
            return t
    return S.T('double')
