"""Independent lexer used for token accounting (C07): text -> multiset of lexemes outside comments.

Comments follow pyparsing.cppStyleComment: /* ... */ (unterminated = not a comment) and // to end of
line (a backslash-newline continues the comment).  String and char literals are atomic for the
purpose of comment detection only; lexemes are words [A-Za-z0-9_]+ and single other characters.
"""
import re
from collections import Counter

_WORD = re.compile(r'[A-Za-z0-9_]+')


def strip_comments(text):
    out = []
    i = 0
    n = len(text)
    while i < n:
        c = text[i]
        if c == '"' or c == "'":
            j = text.find(c, i + 1)      # pyparsing QuotedString without escape char
            nl = text.find('\n', i + 1)
            if j < 0 or (0 <= nl < j):
                out.append(c)
                i += 1
                continue
            out.append(text[i:j + 1])
            i = j + 1
            continue
        if c == '/' and text.startswith('/*', i):
            j = text.find('*/', i + 2)
            if j < 0:
                out.append(c)
                i += 1
                continue
            out.append(' ')
            i = j + 2
            continue
        if c == '/' and text.startswith('//', i):
            j = i + 2
            while j < n and text[j] != '\n':
                if text[j] == '\\' and j + 1 < n and text[j + 1] == '\n':
                    j += 2
                    continue
                j += 1
            out.append(' ')
            i = j
            continue
        out.append(c)
        i += 1
    return ''.join(out)


def lexemes(text):
    text = strip_comments(text).replace('__', ' __ ')   # the dunder marker is a lexeme of its own
    out = Counter()
    i = 0
    n = len(text)
    while i < n:
        c = text[i]
        if c.isspace():
            i += 1
            continue
        m = _WORD.match(text, i)
        if m:
            out[m.group(0)] += 1
            i = m.end()
        else:
            out[c] += 1
            i += 1
    return out
