"""Model -> token list -> text.  A layout decides what goes between two tokens.

Token = (text, kind) with kind in
  'w'  word / keyword / identifier / number
  'p'  punctuation
  'd'  default-value text (atomic, verbatim)
  'h'  include header incl. angle brackets (atomic)
"""
import re
from . import spec as S

W, P, D, H = 'w', 'p', 'd', 'h'


def _w(x):
    return (x, W)


def _p(x):
    return (x, P)


def tok_typename(ns, name):
    out = []
    for n in ns:
        out += [_w(n), _p('::')]
    out.append(_w(name))
    return out


def tok_type(t):
    out = []
    if t.const:
        out.append(_w('const'))
    out += tok_typename(t.ns, t.name)
    if t.args:
        out.append(_p('<'))
        for i, a in enumerate(t.args):
            if i:
                out.append(_p(','))
            out += tok_type(a)
        out.append(_p('>'))
    if t.marker:
        out.append(_p(t.marker))
    return out


def tok_ret(r):
    if r.k == 'Pair':
        out = []
        if r.std:
            out += [_w('std'), _p('::')]
        out += [_w('pair'), _p('<')] + tok_type(r.first) + [_p(',')] + tok_type(r.second) + [_p('>')]
        return out
    return tok_type(r)


def tok_args(args):
    out = []
    for i, a in enumerate(args):
        if i:
            out.append(_p(','))
        out += tok_type(a.type) + [_w(a.name)]
        if a.default is not None:
            out += [_p('='), (a.default, D)]
    return out


def tok_template(tp):
    if not tp:
        return []
    out = [_w('template'), _p('<')]
    for i, p in enumerate(tp):
        if i:
            out.append(_p(','))
        out.append(_w(p.name))
        if p.insts is not None:
            out += [_p('='), _p('{')]
            for j, t in enumerate(p.insts):
                if j:
                    out.append(_p(','))
                out += tok_type(t)
            out.append(_p('}'))
    out.append(_p('>'))
    return out


def tok_enum(e):
    out = [_w(e.kw), _w(e.name), _p('{')]
    for i, x in enumerate(e.enumerators):
        if i:
            out.append(_p(','))
        out.append(_w(x))
    out += [_p('}'), _p(';')]
    return out


def tok_member(m):
    k = m.k
    if k == 'Ctor':
        return tok_template(m.template) + [_w(m.name), _p('(')] + tok_args(m.args) + [_p(')'), _p(';')]
    if k == 'Method':
        return (tok_template(m.template) + tok_ret(m.ret) + [_w(m.name), _p('(')] + tok_args(m.args)
                + [_p(')')] + ([_w('const')] if m.const else []) + [_p(';')])
    if k == 'Static':
        return (tok_template(m.template) + [_w('static')] + tok_ret(m.ret) + [_w(m.name), _p('(')]
                + tok_args(m.args) + [_p(')'), _p(';')])
    if k == 'Prop':
        return (tok_type(m.type) + [_w(m.name)]
                + ([_p('='), (m.default, D)] if m.default is not None else []) + [_p(';')])
    if k == 'Op':
        return (tok_ret(m.ret) + [_w('operator'), _p(m.op), _p('(')] + tok_args(m.args)
                + [_p(')'), _w('const'), _p(';')])
    if k == 'Dunder':
        return [('__', P), _w(m.name), ('__', P), _p('(')] + tok_args(m.args) + [_p(')'), _p(';')]
    if k == 'Enum':
        return tok_enum(m)
    raise ValueError(k)


def tok_item(it):
    k = it.k
    if k == 'Include':
        return [_w('#include'), ('<' + it.header + '>', H)]
    if k == 'Fwd':
        return (([_w('virtual')] if it.virtual else []) + [_w('class')] + tok_typename(it.ns, it.name)
                + (([_p(':')] + tok_typename(it.parent.ns, it.parent.name)) if it.parent else []) + [_p(';')])
    if k == 'Enum':
        return tok_enum(it)
    if k == 'Var':
        return (tok_type(it.type) + [_w(it.name)]
                + ([_p('='), (it.default, D)] if it.default is not None else []) + [_p(';')])
    if k == 'Typedef':
        return [_w('typedef')] + tok_type(it.type) + [_w(it.name), _p(';')]
    if k == 'Func':
        return (tok_template(it.template) + tok_ret(it.ret) + [_w(it.name), _p('(')] + tok_args(it.args)
                + [_p(')'), _p(';')])
    if k == 'Class':
        out = tok_template(it.template) + ([_w('virtual')] if it.virtual else []) + [_w('class'), _w(it.name)]
        if it.base is not None:
            out += [_p(':')] + tok_type(it.base)
        out.append(_p('{'))
        for m in it.members:
            out += tok_member(m)
        out += [_p('}'), _p(';')]
        return out
    if k == 'Namespace':
        out = [_w('namespace'), _w(it.name), _p('{')]
        for x in it.items:
            out += tok_item(x)
        out.append(_p('}'))
        return out
    raise ValueError(k)


def tokens(mod):
    out = []
    for it in (mod.items if hasattr(mod, 'items') else mod):
        out += tok_item(it)
    return out


_WORDCH = re.compile(r'[A-Za-z0-9_#]')


def needs_sep(a, b):
    """True when a and b would lex differently if written without anything between them."""
    (ta, ka), (tb, kb) = a, b
    if ka == H or kb == H:
        return False
    ca, cb = ta[-1], tb[0]
    if (ta == '__' and ka == P) or (tb == '__' and kb == P):
        return False
    if _WORDCH.match(ca) and _WORDCH.match(cb):
        return True
    if ka == D or kb == D:
        # default text is free-form: keep it apart from its neighbours unless the
        # neighbour is one of , ; ) =  (which can never be part of it)
        other = tb if ka == D else ta
        return other not in (',', ';', ')', '=')
    # two punctuation lexemes that would fuse into another lexeme
    if ka == P and kb == P:
        fused = ta + tb
        if fused in ('::', '//', '/*', '*/'):
            return True
        if ta == ':' and tb.startswith(':'):
            return True
    return False


def render(mod, style='pretty'):
    """Canonical renderings: 'pretty' (one declaration per line, indented) or
    'flat' (single blanks between all tokens)."""
    if style == 'flat':
        return ' '.join(t for t, _ in tokens(mod)) + '\n'
    out = []
    for it in (mod.items if hasattr(mod, 'items') else mod):
        _lines(it, 0, out)
    return '\n'.join(out) + '\n'


def _lines(it, ind, out):
    pad = '  ' * ind
    if it.k == 'Namespace':
        out.append(pad + 'namespace ' + it.name + ' {')
        for x in it.items:
            _lines(x, ind + 1, out)
        out.append(pad + '}')
    elif it.k == 'Class':
        head = tok_item(S.Class(it.name, (), it.template, it.virtual, it.base))[:-2]
        out.append(pad + _join(head))
        for m in it.members:
            out.append(pad + '  ' + _join(tok_member(m)))
        out.append(pad + '};')
    else:
        out.append(pad + _join(tok_item(it)))


_NOSPACE_BEFORE = {',', ';', ')', '>', '::', '*', '&', '@'}
_NOSPACE_AFTER = {'(', '<', '::'}


def _join(line):
    s = ''
    prev = None
    for tk in line:
        t, k = tk
        if prev is None:
            s += t
        else:
            pt, pk = prev
            glue = ' '
            if not needs_sep(prev, tk):
                if k == P and t in _NOSPACE_BEFORE:
                    glue = ''
                if pk == P and pt in _NOSPACE_AFTER:
                    glue = ''
                if pt == '__' or t == '__':
                    glue = ''
                if pk == W and pt == 'operator':
                    glue = ''
                if pt == 'std::':
                    glue = ''
                if k == P and t in ('(', '<') and pk == W and pt not in ('template', 'operator'):
                    glue = ''
                if pk == W and pt == 'template':
                    glue = ''
                if k == P and t == '(' and pk == P and pt in S.OPERATORS:
                    glue = ''
            s += glue + t
        prev = tk
    return s


# ---------------------------------------------------------------- layouts

HOSTILE_COMMENT_BODIES = [
    '', ' ', 'x', ' plain words ', '};', '{', '}', '{ { {', '(', ')', ';', ';;', '"', "'", '" unbalanced',
    'class X {};', 'template<T> class X {};', 'namespace q {', 'typedef A<B> C;', 'const', 'static',
    'virtual', 'enum', 'operator+', '* /', '/ *', '//', '/ /', '#include <x.h>', 'T', 'This', 'void f();',
    ' = 5', ', int y', '::', '<', '>', '>>', 'std::pair<a,b>', '\\', '\\n', 'é', '@', '&', '*', '__len__()',
]


class Layout:
    """Chooses the text between adjacent tokens.  Classes of gap text:
    none, blank, blanks, tab, newline, block (/* */), line (// ... \\n), mixed."""
    CLASSES = ('none', 'blank', 'blanks', 'tab', 'newline', 'block', 'line', 'mixed')

    def __init__(self, rng, weights=None, allow_glued_default_comment=False):
        self.r = rng
        self.weights = weights or {'none': 4, 'blank': 5, 'blanks': 1, 'tab': 1, 'newline': 2,
                                   'block': 3, 'line': 2, 'mixed': 2}
        self.allow_glued = allow_glued_default_comment
        self.coverage = {}

    def _block(self):
        body = self.r.choice(HOSTILE_COMMENT_BODIES).replace('*/', '* /')
        return '/*' + body + '*/'

    def _line(self):
        body = self.r.choice(HOSTILE_COMMENT_BODIES).replace('\n', ' ')
        if body.endswith('\\'):
            body += ' .'
        if self.r.random() < 0.12:
            # a line comment continued with backslash-newline: the next physical line still is comment text
            body += ' \\\n class NotADeclaration { void f(); }; ' + self.r.choice(['', 'more text', '// again'])
        return '//' + body + '\n'

    def gap(self, a, b):
        must = needs_sep(a, b)
        classes = [c for c in self.CLASSES if not (must and c == 'none')]
        c = self.r.choices(classes, [self.weights[x] for x in classes])[0]
        if c == 'none':
            s = ''
        elif c == 'blank':
            s = ' '
        elif c == 'blanks':
            s = ' ' * self.r.randint(2, 6)
        elif c == 'tab':
            s = '\t'
        elif c == 'newline':
            s = self.r.choice(['\n', '\n\n', '\r\n', ' \n  '])
        elif c == 'block':
            s = self._block()
        elif c == 'line':
            s = self._line()
        else:
            parts = []
            for _ in range(self.r.randint(2, 4)):
                parts.append(self.r.choice([' ', '\n', '\t', self._block(), self._line()]))
            s = ''.join(parts)
            if must and s == '':
                s = ' '
        # comments glued to a token that ends in '/' (operator/) or to a default value
        # would change the lexing; keep one blank in front
        if s.startswith('/') and (a[0].endswith('/') or a[0].endswith('*') and s.startswith('/')
                                  or (a[1] == D and not self.allow_glued)):
            s = ' ' + s
        if a[0].endswith('/') and s.startswith('*'):
            s = ' ' + s
        if s.endswith('/') and (b[0].startswith('/') or b[0].startswith('*')):
            s = s + ' '
        if a[1] == D and not self.allow_glued and s and not s[0].isspace() and s[0] == '/':
            s = ' ' + s
        # a default value must be followed directly by , ; ) or whitespace
        kc = _pair_class(a, b)
        self.coverage[(kc, c)] = self.coverage.get((kc, c), 0) + 1
        return s

    def render(self, toks):
        out = [self.r.choice(['', ' ', '\n', self._block(), self._line()])]
        for i, tk in enumerate(toks):
            if i:
                out.append(self.gap(toks[i - 1], tk))
            out.append(tk[0])
        out.append(self.r.choice(['', ' ', '\n', self._block(), self._line(), '// no newline at end']))
        return ''.join(out)


def _tok_class(t):
    text, k = t
    if k == D:
        return 'default'
    if k == H:
        return 'header'
    if k == W:
        if text in ('const', 'static', 'virtual', 'class', 'template', 'typedef', 'namespace', 'operator',
                    'pair', 'std::', '#include') or text.startswith('enum'):
            return 'kw'
        return 'ident'
    return text


def _pair_class(a, b):
    return _tok_class(a) + ' ' + _tok_class(b)
