"""Doxygen-XML generator driven by the interface model (input generator for C17)."""
import os
import xml.etree.ElementTree as ET
from . import ref_inst
from . import spec as S

HOSTILE_TEXT = [
    'plain words', 'He said "hi"', "it's", 'both \' and "', 'back\\slash', 'ends with backslash\\', 'bs before quote \\"',
    'tab\there', 'line1\nline2', 'cr\rlf', 'percent %s %d {braces} {0}', '??/ trigraph ??=', 'unicode é ü ß', 'greek αβγ',
    'cjk 漢字', 'emoji \U0001F600 astral', 'nbsp inside', 'soft­hyphen', 'del\u007fchar', 'c1\u0085control',
    'c1 then hex \u0085af', 'nbsp then hex  beef', 'del then hex \u007fa1', 'ls ps ', 'zwsp​x', 'bom﻿x',
    'tag \U000e0001 x', 'private  use', 'newline at end\n', '  leading blanks', 'question ?? marks', '/* comment */ // x',
    '"', '\\', '\\\\', '\'', 'a"b\\"c', '\\n literal backslash n', '\\x41 literal', '\\u0041 literal', 'R"(raw)"',
]
# very long documentation (several thousand characters once escaped), dense in escapes at every offset
HOSTILE_TEXT += [
    'long ' + 'say "x" \\ y\n' * 400,
    ('\u00a0\u00e9 ' * 900) + 'end',
    'q' * 2040 + '"quoted" \\ tail \u00a0' * 30,
    ''.join('%d "\\\n' % i for i in range(700)),
]
PRINTABLE_ONLY = [t for t in HOSTILE_TEXT if all(ch.isprintable() or ch in '\n\r\t' for ch in t)]


def _para(parent, text):
    p = ET.SubElement(parent, 'para')
    p.text = text
    return p


class DoxyTree:
    """Builds index.xml + one compound file per class.  `marks` maps marker -> (class cpp, method, arg names, ordinal)."""

    def __init__(self, rng, texts=None, flagged_shapes=False):
        self.r = rng
        self.texts = texts or HOSTILE_TEXT
        self.flagged = flagged_shapes
        self.compounds = []      # (refid, cpp name, ET root)
        self.marks = {}
        self.n = 0

    def text(self):
        return self.r.choice(self.texts)

    def add_class(self, cpp, methods):
        """methods: [(callee name, [arg names], [has default per arg])] in declaration order."""
        # (Doxygen shortens long identifiers as well: file names have a length limit)
        refid = 'class' + ''.join(ch if ch.isalnum() else '_' for ch in cpp)[:120] + '_%d' % len(self.compounds)
        root = ET.Element('doxygen')
        cd = ET.SubElement(root, 'compounddef', {'id': refid, 'kind': 'class'})
        ET.SubElement(cd, 'compoundname').text = cpp
        sec = ET.SubElement(cd, 'sectiondef', {'kind': 'public-func'})
        seen = {}
        for callee, names, defaults in methods:
            shape = self.r.choice(['full', 'full', 'brief', 'none', 'noparams', 'detail'])
            md = ET.SubElement(sec, 'memberdef', {'kind': 'function', 'id': '%s_1m%d' % (refid, self.n)})
            self.n += 1
            ET.SubElement(md, 'type').text = 'void'
            ET.SubElement(md, 'name').text = callee
            ET.SubElement(md, 'argsstring').text = '(%s)' % ', '.join(names)
            for nm, dflt in zip(names, defaults):
                pe = ET.SubElement(md, 'param')
                ET.SubElement(pe, 'type').text = 'int'
                use_defname = self.r.random() < 0.15 and (self.flagged or not dflt)
                ET.SubElement(pe, 'defname' if use_defname else 'declname').text = nm
                if dflt:
                    ET.SubElement(pe, 'defval').text = '0'
            key = (cpp, callee, tuple(names))
            k = seen.get(key, 0)
            seen[key] = k + 1
            mark = None
            if shape != 'none':
                mark = 'MARK%dQ' % len(self.marks)
                self.marks[mark] = {'class': cpp, 'method': callee, 'args': list(names), 'ordinal': k,
                                    'n_required': sum(1 for d in defaults if not d)}
            bd = ET.SubElement(md, 'briefdescription')
            dd = ET.SubElement(md, 'detaileddescription')
            if shape in ('full', 'brief', 'noparams'):
                _para(bd, '%s %s' % (mark, self.text()))
            if shape in ('full', 'detail', 'noparams'):
                _para(dd, ('%s ' % mark if shape == 'detail' else '') + self.text())
                if shape != 'noparams' and names:
                    pp = ET.SubElement(dd, 'para')
                    pl = ET.SubElement(pp, 'parameterlist', {'kind': 'param'})
                    for nm in names:
                        pi = ET.SubElement(pl, 'parameteritem')
                        nl = ET.SubElement(pi, 'parameternamelist')
                        ET.SubElement(nl, 'parametername').text = nm
                        pd = ET.SubElement(pi, 'parameterdescription')
                        if self.flagged and self.r.random() < 0.3:
                            pass       # empty <parameterdescription/>: flagged XML shape (D27)
                        else:
                            _para(pd, self.text() if self.r.random() < 0.8 else None)
                    if self.r.random() < 0.6:
                        ss = ET.SubElement(pp, 'simplesect', {'kind': 'return'})
                        _para(ss, self.text())
        self.compounds.append((refid, cpp, root))
        return refid

    def write(self, folder, drop_from_index=(), skip_files=(), truncate=()):
        os.makedirs(folder, exist_ok=True)
        idx = ET.Element('doxygenindex')
        for refid, cpp, root in self.compounds:
            if refid in drop_from_index:
                continue
            c = ET.SubElement(idx, 'compound', {'refid': refid, 'kind': 'class'})
            ET.SubElement(c, 'name').text = cpp
        ET.ElementTree(idx).write(os.path.join(folder, 'index.xml'), encoding='utf-8', xml_declaration=True)
        for refid, cpp, root in self.compounds:
            if refid in skip_files:
                continue
            p = os.path.join(folder, refid + '.xml')
            ET.ElementTree(root).write(p, encoding='utf-8', xml_declaration=True)
            if refid in truncate:
                data = open(p, 'rb').read()
                open(p, 'wb').write(data[:max(10, len(data) // 2)])


def from_model(mod, rng, texts=None, flagged=False, only_plain=False):
    """DoxyTree documenting (a random subset of) the methods / static methods of every class
    instantiation of `mod`; returns (tree, documented class cpp names)."""
    tree = DoxyTree(rng, texts, flagged)
    desc = ref_inst.expand_module(mod)
    documented = []

    def rec(ds):
        for d in ds:
            if d['kind'] == 'ns':
                rec(d['content'])
            elif d['kind'] == 'class':
                if "'" in d['cpp']:
                    continue
                if rng.random() < 0.15:
                    continue                      # undocumented class
                methods = []
                for m in d['methods'] + d['statics']:
                    if rng.random() < 0.15:
                        continue                  # undocumented member
                    names = [a[1] for a in m['args']]
                    if len(names) >= 2 and rng.random() < 0.45:
                        # a decoy overload of the same arity, listed first: its parameter names are a permutation of
                        # the real ones, or differ from them in one position only (first / middle / last)
                        form = rng.choice(['reverse', 'rotate', 'first', 'last', 'middle'])
                        if form == 'reverse':
                            perm = list(reversed(names))
                        elif form == 'rotate':
                            perm = names[1:] + names[:1]
                        elif form == 'first':
                            perm = [names[0] + '_alt'] + names[1:]
                        elif form == 'last':
                            perm = names[:-1] + [names[-1] + '_alt']
                        else:
                            j = rng.randrange(len(names))
                            perm = names[:j] + [names[j] + '_alt'] + names[j + 1:]
                        if perm != names:
                            methods.append((m['callee'], perm, [False] * len(perm)))
                    if names and rng.random() < 0.3:
                        # a decoy listed first whose parameter list *contains* the real one: the last real parameter and
                        # one more are optional there, so required < n < total and it documents neither this member nor
                        # a call of it (h1_C17_1: counting "between required and total" instead of "required or total")
                        methods.append((m['callee'], names + ['zz_opt'], [False] * (len(names) - 1) + [True, True]))
                    methods.append((m['callee'], [a[1] for a in m['args']], [a[2] is not None for a in m['args']]))
                    if rng.random() < 0.2:        # a decoy overload with different parameter names
                        methods.append((m['callee'], [a[1] + '_other' for a in m['args']] + ['extra'],
                                        [False] * (len(m['args']) + 1)))
                tree.add_class(d['cpp'], methods)
                documented.append(d['cpp'])
    rec(desc)
    return tree, documented
