#!/usr/bin/env python3
"""Evaluate a seeded property-breaking change against the checks.

usage: tools_seed.py <name> <source dir with patch.diff demo.* notes.md> <property id> <check ids, comma separated> [--seeds 0,1] [--scratch]
Applies the patch to /repo (never committed), runs the 94 tests, the demonstration and the listed checks, reverts
the patch, re-runs the demonstration, and records everything in /verif/seeded/<name>/meta.json (earlier evaluations
are kept under "history").  With --scratch the patch is applied to a temporary git worktree of /repo's HEAD under
/tmp instead (checks run with VERIF_REPO pointing at it), so that /repo stays untouched while other runs read it.
"""
import glob, json, os, shutil, subprocess, sys, time

name, src, pid, checks = sys.argv[1], sys.argv[2], sys.argv[3], sys.argv[4].split(',')
seeds = [0]
if '--seeds' in sys.argv:
    seeds = [int(x) for x in sys.argv[sys.argv.index('--seeds') + 1].split(',')]
dst = os.path.join('/verif/seeded', name)
SCRATCH = '--scratch' in sys.argv
TREE = '/repo'
if SCRATCH:
    TREE = '/tmp/seedwt_' + name
    subprocess.run('git -C /repo worktree remove --force %s; rm -rf %s; git -C /repo worktree prune; '
                   'git -C /repo worktree add --detach %s %s' % (TREE, TREE, TREE, os.environ.get('SEED_BASE', 'HEAD')), shell=True,
                   stdout=subprocess.DEVNULL, stderr=subprocess.DEVNULL)
    # the MATLAB generator reads a git-ignored template that the build / the test suite puts next to it
    subprocess.run('cp /repo/gtwrap/matlab_wrapper/matlab_wrapper.tpl %s/gtwrap/matlab_wrapper/ 2>/dev/null' % TREE, shell=True)
os.makedirs(dst, exist_ok=True)
for f in glob.glob(os.path.join(src, '*')):
    if os.path.isfile(f):
        shutil.copy(f, dst)
    elif os.path.isdir(f) and os.path.basename(f) not in ('__pycache__', 'build', 'out'):
        shutil.copytree(f, os.path.join(dst, os.path.basename(f)), dirs_exist_ok=True)
demo = next((f for f in ('demo.py', 'demo.sh') if os.path.exists(os.path.join(dst, f))), None)


def sh(cmd, cwd=None, timeout=3600, env=None):
    cwd = cwd or TREE
    e = dict(os.environ)
    e['PYTHONPATH'] = TREE
    if SCRATCH:
        e['VERIF_REPO'] = TREE
    e.update(env or {})
    p = subprocess.run(cmd, cwd=cwd, shell=True, stdout=subprocess.PIPE, stderr=subprocess.STDOUT, timeout=timeout, env=e)
    return p.returncode, p.stdout.decode('utf8', 'replace')


def run_demo():
    if demo is None:
        return None, 'no demo'
    if demo.endswith('.py'):
        return sh('/venv/bin/python %s %s' % (os.path.join(dst, demo), TREE))
    return sh('sh %s %s' % (os.path.join(dst, demo), TREE))


st = sh('git status --porcelain --untracked-files=no')[1].strip()
if st:
    sys.exit('repo not clean: ' + st)
prev = None
if os.path.exists(os.path.join(dst, 'meta.json')):
    try:
        prev = json.load(open(os.path.join(dst, 'meta.json')))
    except Exception:
        prev = None
meta = {'name': name, 'property': pid, 'repo_head': sh('git log --format=%h -1')[1].strip(), 'checks': {}, 'at': time.strftime('%Y-%m-%d %H:%M')}
rc, out = run_demo()
meta['demo_on_clean_tree'] = {'rc': rc, 'tail': out[-300:]}
rc, out = sh('git apply --check %s && git apply %s' % (os.path.join(dst, 'patch.diff'), os.path.join(dst, 'patch.diff')))
if rc != 0:
    rc, out = sh('git apply -3 %s' % os.path.join(dst, 'patch.diff'))
meta['apply'] = {'rc': rc, 'out': out[-300:]}
try:
    if rc == 0:
        rc, out = sh('/venv/bin/python -m pytest tests -q -p no:cacheprovider 2>&1 | tail -3')
        meta['tests_with_patch'] = out.strip().split('\n')[-1]
        rc, out = run_demo()
        meta['demo_with_patch'] = {'rc': rc, 'tail': out[-400:]}
        for c in checks:
            res = []
            for s in seeds:
                t0 = time.time()
                rc, out = sh('/verif/check %s --tier quick --seed %d' % (c, s), cwd='/verif')
                det = [l for l in out.split('\n') if l.strip().startswith('detail:')][:2]
                res.append({'seed': s, 'rc': rc, 'caught': rc == 1, 'wall_s': round(time.time() - t0, 1),
                            'first_detail': [d.strip()[:400] for d in det], 'summary': out.strip().split('\n')[-1][:200] if rc != 1 else ''})
            meta['checks'][c] = res
finally:
    sh('git checkout -- . && git status --porcelain --untracked-files=no')
rc, out = run_demo()
meta['demo_after_revert'] = {'rc': rc}
if prev is not None:
    hist = prev.pop('history', [])
    hist.append({k: prev.get(k) for k in ('at', 'repo_head', 'caught_by', 'tests_with_patch')})
    meta['history'] = hist
    for k in ('change', 'needs_to_manifest'):
        if k in prev and k not in meta:
            meta[k] = prev[k]
meta['tree'] = 'scratch worktree of HEAD' if SCRATCH else '/repo working tree'
if SCRATCH:
    subprocess.run('git -C /repo worktree remove --force %s; git -C /repo worktree prune' % TREE, shell=True,
                   stdout=subprocess.DEVNULL, stderr=subprocess.DEVNULL)
meta['caught_by'] = sorted(c for c, r in meta['checks'].items() if any(x['caught'] for x in r))
json.dump(meta, open(os.path.join(dst, 'meta.json'), 'w'), indent=1)
print(json.dumps({k: meta[k] for k in ('name', 'property', 'tests_with_patch', 'caught_by') if k in meta}))
print('demo clean/patched/reverted rc:', meta['demo_on_clean_tree']['rc'], meta.get('demo_with_patch', {}).get('rc'), meta['demo_after_revert']['rc'])
for c, r in meta['checks'].items():
    for x in r:
        print(' ', c, 'seed', x['seed'], 'rc', x['rc'], (x['first_detail'][0][:200] if x['first_detail'] else x['summary']))
# the evidence files were just rewritten by runs against a patched tree: they must be regenerated on the clean tree
print('NOTE: re-run the listed checks on the clean tree before committing evidence.')
