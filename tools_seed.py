#!/usr/bin/env python3
"""Evaluate a seeded property-breaking change against the checks.

usage: tools_seed.py <name> <source dir with patch.diff demo.* notes.md> <property id> <check ids, comma separated> [--seeds 0,1]
Applies the patch to /repo (never committed), runs the 94 tests, the demonstration and the listed checks, reverts
the patch, re-runs the demonstration, and records everything in /verif/seeded/<name>/meta.json.
"""
import glob, json, os, shutil, subprocess, sys, time

name, src, pid, checks = sys.argv[1], sys.argv[2], sys.argv[3], sys.argv[4].split(',')
seeds = [0]
if '--seeds' in sys.argv:
    seeds = [int(x) for x in sys.argv[sys.argv.index('--seeds') + 1].split(',')]
dst = os.path.join('/verif/seeded', name)
os.makedirs(dst, exist_ok=True)
for f in glob.glob(os.path.join(src, '*')):
    if os.path.isfile(f):
        shutil.copy(f, dst)
    elif os.path.isdir(f) and os.path.basename(f) not in ('__pycache__', 'build', 'out'):
        shutil.copytree(f, os.path.join(dst, os.path.basename(f)), dirs_exist_ok=True)
demo = next((f for f in ('demo.py', 'demo.sh') if os.path.exists(os.path.join(dst, f))), None)


def sh(cmd, cwd='/repo', timeout=3600, env=None):
    e = dict(os.environ)
    e['PYTHONPATH'] = '/repo'
    e.update(env or {})
    p = subprocess.run(cmd, cwd=cwd, shell=True, stdout=subprocess.PIPE, stderr=subprocess.STDOUT, timeout=timeout, env=e)
    return p.returncode, p.stdout.decode('utf8', 'replace')


def run_demo():
    if demo is None:
        return None, 'no demo'
    if demo.endswith('.py'):
        return sh('/venv/bin/python %s /repo' % os.path.join(dst, demo))
    return sh('sh %s /repo' % os.path.join(dst, demo))


st = sh('git status --porcelain --untracked-files=no')[1].strip()
if st:
    sys.exit('repo not clean: ' + st)
meta = {'name': name, 'property': pid, 'repo_head': sh('git log --format=%h -1')[1].strip(), 'checks': {}, 'at': time.strftime('%Y-%m-%d %H:%M')}
rc, out = run_demo()
meta['demo_on_clean_tree'] = {'rc': rc, 'tail': out[-300:]}
rc, out = sh('git apply --check %s && git apply %s' % (os.path.join(dst, 'patch.diff'), os.path.join(dst, 'patch.diff')))
if rc != 0:
    rc, out = sh('git apply -3 %s' % os.path.join(dst, 'patch.diff'))
meta['apply'] = {'rc': rc, 'out': out[-300:]}
try:
    if rc == 0:
        rc, out = sh('/venv/bin/python -m pytest tests -q -p no:cacheprovider 2>&1 | tail -3')
        meta['tests_with_patch'] = out.strip().split('\n')[-1]
        rc, out = run_demo()
        meta['demo_with_patch'] = {'rc': rc, 'tail': out[-400:]}
        for c in checks:
            res = []
            for s in seeds:
                t0 = time.time()
                rc, out = sh('/verif/check %s --tier quick --seed %d' % (c, s), cwd='/verif')
                det = [l for l in out.split('\n') if l.strip().startswith('detail:')][:2]
                res.append({'seed': s, 'rc': rc, 'caught': rc == 1, 'wall_s': round(time.time() - t0, 1),
                            'first_detail': [d.strip()[:400] for d in det], 'summary': out.strip().split('\n')[-1][:200] if rc != 1 else ''})
            meta['checks'][c] = res
finally:
    sh('git checkout -- . && git status --porcelain --untracked-files=no')
rc, out = run_demo()
meta['demo_after_revert'] = {'rc': rc}
meta['caught_by'] = sorted(c for c, r in meta['checks'].items() if any(x['caught'] for x in r))
json.dump(meta, open(os.path.join(dst, 'meta.json'), 'w'), indent=1)
print(json.dumps({k: meta[k] for k in ('name', 'property', 'tests_with_patch', 'caught_by') if k in meta}))
print('demo clean/patched/reverted rc:', meta['demo_on_clean_tree']['rc'], meta.get('demo_with_patch', {}).get('rc'), meta['demo_after_revert']['rc'])
for c, r in meta['checks'].items():
    for x in r:
        print(' ', c, 'seed', x['seed'], 'rc', x['rc'], (x['first_detail'][0][:200] if x['first_detail'] else x['summary']))
# the evidence files were just rewritten by runs against a patched tree: they must be regenerated on the clean tree
print('NOTE: re-run the listed checks on the clean tree before committing evidence.')
