#!/usr/bin/env python3
"""Regenerates MANIFEST.json from the table below (kept as code so that it is always valid)."""
import json, os
HERE = os.path.dirname(os.path.abspath(__file__))
CHECKS = {}
def add(pid, technique, text, note, design_ref):
    CHECKS[pid] = dict(property_id=pid, quick_cmd='./check %s --tier quick' % pid,
                       thorough_cmd='./check %s --tier thorough' % pid,
                       evidence_file='/verif/evidence/%s.json' % pid,
                       replay_cmd_template='./check %s --replay {path}' % pid,
                       engine='runtime-monitoring',
                       level_claimed=dict(category='exploration', text=text, design_ref=design_ref),
                       level_note=note, technique=technique)
exec(open(os.path.join(HERE, 'manifest_table.py')).read())
props = [json.loads(l)['id'] for l in open(os.path.join(HERE, 'properties.jsonl'))]
na = [dict(property_id=p, reason=NOT_APPLICABLE.get(p, 'check not built yet in this round; see DESIGN.md section 4 for the planned monitor'))
      for p in props if p not in CHECKS]
m = dict(version=1, setup_cmd='./setup.sh',
         hooks=dict(guard='GTWRAP_VERIF', enable='checks import gtwrap from /repo working tree with GTWRAP_VERIF=1; monitors are attached from the harness (no source hooks needed so far)',
                    baseline_off_cmd='cd /repo && /venv/bin/python -m pytest -ra -q -p no:cacheprovider --timeout=900 --continue-on-collection-errors',
                    source_commits=HOOK_COMMITS, add_only=True),
         engines=[dict(name='runtime-monitoring', path='/verif/vlib', serves_properties=sorted(CHECKS),
                       kind_free_text='seeded workload generators + reference-model / metamorphic oracles observing executions of the real gtwrap code, icontract contracts, audit hooks, sanitizers on generated C++')],
         checks=[CHECKS[p] for p in props if p in CHECKS],
         notes='See DESIGN.md. Exit codes: 0 held on what was observed, 1 violation (VIOLATION line + replay file), 2 inconclusive.',
         not_applicable=na)
json.dump(m, open(os.path.join(HERE, 'MANIFEST.json'), 'w'), indent=1)
print('MANIFEST.json: %d checks, %d not claimed' % (len(CHECKS), len(na)))
