#!/bin/sh
# Offline set-up: third-party monitors (icontract, deal) next to the repository's interpreter.
HERE="$(cd "$(dirname "$0")" && pwd)"
if [ ! -d "$HERE/.deps/icontract" ]; then
  /venv/bin/python -m pip install -q --no-index --find-links /opt/veriftools/wheels --target "$HERE/.deps" icontract deal || exit 1
fi
mkdir -p "$HERE/evidence"
exit 0
