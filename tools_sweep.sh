#!/bin/sh
# usage: tools_sweep.sh "<seeds>" [tier] [ids...]   -- runs checks for several seeds, prints only failures
SEEDS="${1:-0 1 2}"; TIER="${2:-quick}"; shift; shift
IDS="$@"
[ -z "$IDS" ] && IDS=$(python3 -c "import json;print(' '.join(c['property_id'] for c in json.load(open('/verif/MANIFEST.json'))['checks']))")
for id in $IDS; do for s in $SEEDS; do
  out=$(/verif/check $id --tier $TIER --seed $s 2>&1); rc=$?
  if [ $rc -ne 0 ]; then echo "FAIL $id seed=$s rc=$rc"; echo "$out" | grep -v '^VIOLATION' | cut -c1-700 | head -6; else echo "ok $id seed=$s $(echo "$out" | tail -1 | cut -c1-90)"; fi
done; done
