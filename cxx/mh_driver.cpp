// C18 driver: exercises the real matlab.h (included unmodified from the repository) against the mock
// MEX runtime.  usage: mh_driver <seed> <nrandom> <nhistories>
#include "mockmex.h"
#include <gtwrap/matlab.h>
#include <cfloat>
#include <climits>
#include <cmath>
#include <cstring>
#include <random>
static long n_fail = 0;
static std::map<std::string, long> counts;
static void fail(const std::string& what, const std::string& detail) {
  n_fail++;
  if (n_fail <= 40) printf("FAIL %s :: %s\n", what.c_str(), detail.c_str());
}
#define COUNT(k) counts[k]++

template <class T> static std::string bits(const T& v) { char b[3 * sizeof(T) + 1]; const unsigned char* p = (const unsigned char*)&v; std::string s; for (size_t i = 0; i < sizeof(T); i++) { snprintf(b, 4, "%02x", p[i]); s += b; } return s; }

template <class T> static void roundtrip(const T& v, const char* tn) {
  mxArray* a = wrap<T>(v);
  T b = unwrap<T>(a);
  COUNT(std::string("roundtrip:") + tn);
  if (memcmp(&v, &b, sizeof(T)) != 0) fail(std::string("scalar round trip changes the value: ") + tn, bits(v) + " -> " + bits(b));
  if (mxGetM(a) != 1 || mxGetN(a) != 1) fail(std::string("wrapped scalar is not 1x1: ") + tn, "");
  mxDestroyArray(a);
}

template <class F> static bool raises(F f) { try { f(); } catch (MexError&) { return true; } return false; }

struct Obj {
  static long live;
  long tag;
  explicit Obj(long t) : tag(t) { live++; }
  Obj(const Obj& o) : tag(o.tag) { live++; }
  virtual ~Obj() { live--; }
};
long Obj::live = 0;
struct Der : Obj { explicit Der(long t) : Obj(t) {} };

int main(int argc, char** argv) {
  unsigned long seed = argc > 1 ? strtoul(argv[1], 0, 10) : 1;
  long nrand = argc > 2 ? atol(argv[2]) : 1000;
  long nhist = argc > 3 ? atol(argv[3]) : 100;
  std::mt19937_64 rng(seed);
  // ---------------- scalars
  roundtrip<bool>(true, "bool"); roundtrip<bool>(false, "bool");
  for (int c = 0; c < 256; c++) { roundtrip<char>((char)c, "char"); roundtrip<unsigned char>((unsigned char)c, "unsigned char"); }
  int is[] = {0, 1, -1, 2, -2, INT_MAX, INT_MIN, INT_MIN + 1, INT_MAX - 1, 65535, 65536, -65536, 1 << 30, -(1 << 30), 255, 256, -255, -256};
  for (int i : is) roundtrip<int>(i, "int");
  for (int k = 0; k < 31; k++) { roundtrip<int>((1 << k) - 1, "int"); roundtrip<int>(1 << k, "int"); roundtrip<int>(-(1 << k), "int"); roundtrip<int>((1 << k) + 1, "int"); }
  size_t ss[] = {0, 1, 2, SIZE_MAX, SIZE_MAX - 1, (size_t)1 << 63, ((size_t)1 << 63) - 1, ((size_t)1 << 53) + 1, ((size_t)1 << 53) - 1, (size_t)1 << 32, ((size_t)1 << 32) - 1, ((size_t)1 << 31)};
  for (size_t s : ss) roundtrip<size_t>(s, "size_t");
  for (int k = 0; k < 64; k++) { roundtrip<size_t>(((size_t)1 << k), "size_t"); roundtrip<size_t>(((size_t)1 << k) - 1, "size_t"); roundtrip<size_t>(((size_t)1 << k) + 1, "size_t"); }
  double ds[] = {0.0, -0.0, 1.0, -1.0, 1.5, -9.81, DBL_MAX, -DBL_MAX, DBL_MIN, -DBL_MIN, 4.9e-324, -4.9e-324, DBL_EPSILON, 1e308, 1e-308, INFINITY, -INFINITY, NAN, -NAN, 9007199254740993.0, 0.1, 1.0 / 3.0};
  for (double d : ds) roundtrip<double>(d, "double");
  for (long k = 0; k < nrand; k++) {
    uint64_t b = rng();
    double d; memcpy(&d, &b, 8);
    roundtrip<double>(d, "double");                 // arbitrary bit patterns incl. NaN payloads and denormals
    roundtrip<int>((int)(uint32_t)b, "int");
    roundtrip<size_t>((size_t)b, "size_t");
  }
  // values arriving from MATLAB as double / other classes must convert like a C++ cast
  {
    // (every number typed in MATLAB is a double: keys and sizes beyond 2^31 arrive this way)
    double bigs[] = {2147483648.0, 3000000000.0, 4294967296.0, 1099511627776.0, 9007199254740992.0};
    for (double v : bigs) {
      mxArray* a = mxCreateDoubleScalar(v);
      COUNT("from_matlab_double");
      if (unwrap<size_t>(a) != (size_t)v) fail("unwrap<size_t>(large double scalar)", std::to_string(v));
      if (unwrap<double>(a) != v) fail("unwrap<double>(large double scalar)", std::to_string(v));
      mxDestroyArray(a);
    }
    double vals[] = {0, 1, -1, 3, 255, 65536, 2147483647.0, -2147483648.0, 1e6};
    for (double v : vals) {
      mxArray* a = mxCreateDoubleScalar(v);
      COUNT("from_matlab_double");
      if (unwrap<int>(a) != (int)v) fail("unwrap<int>(double scalar)", std::to_string(v));
      if (v >= 0 && unwrap<size_t>(a) != (size_t)v) fail("unwrap<size_t>(double scalar)", std::to_string(v));
      if (unwrap<double>(a) != v) fail("unwrap<double>(double scalar)", std::to_string(v));
      if (unwrap<bool>(a) != (v != 0)) fail("unwrap<bool>(double scalar)", std::to_string(v));
      mxDestroyArray(a);
    }
    mxClassID ics[] = {mxINT8_CLASS, mxUINT8_CLASS, mxINT16_CLASS, mxUINT16_CLASS, mxINT32_CLASS, mxUINT32_CLASS, mxINT64_CLASS, mxUINT64_CLASS, mxLOGICAL_CLASS, mxSINGLE_CLASS};
    for (mxClassID c : ics) {
      mxArray* a = mock::numeric(1, 1, c);
      if (c == mxSINGLE_CLASS) { float f = 5; memcpy(a->data.data(), &f, 4); } else a->data[0] = (c == mxLOGICAL_CLASS) ? 1 : 5;
      COUNT("from_matlab_intclass");
      int want = (c == mxLOGICAL_CLASS) ? 1 : 5;
      if (unwrap<int>(a) != want) fail("unwrap<int>(integer-class scalar)", std::to_string((int)c));
      if (unwrap<double>(a) != (double)want) fail("unwrap<double>(integer-class scalar)", std::to_string((int)c));
      mxDestroyArray(a);
    }
  }
  // ---------------- strings
  {
    std::vector<std::string> strs = {"", "a", "hello world", "tab\there", "line\nbreak", "quote\"s", "back\\slash", "\xc3\xa9\xe6\xbc\xa2 utf8", std::string(4096, 'x')};
    for (int c = 1; c < 256; c++) strs.push_back(std::string(1, (char)c));
    for (long k = 0; k < std::min<long>(nrand, 2000); k++) { size_t L = rng() % 300; std::string s; for (size_t i = 0; i < L; i++) s += (char)(1 + rng() % 255); strs.push_back(s); }
    for (auto& s : strs) {
      mxArray* a = wrap<string>(s);
      COUNT("roundtrip:string");
      if (mxGetClassID(a) != mxCHAR_CLASS) fail("wrapped string is not a char array", s.substr(0, 20));
      std::string b = unwrap<string>(a);
      if (b != s) fail("string round trip changes the value", "len " + std::to_string(s.size()) + " -> " + std::to_string(b.size()));
      mxDestroyArray(a);
    }
    std::string nul("ab\0cd", 5);
    mxArray* a = wrap<string>(nul);
    std::string b = unwrap<string>(a);
    if (b != nul) printf("NOTE embedded-NUL string truncated by mxCreateString: %zu -> %zu bytes\n", nul.size(), b.size());
    mxDestroyArray(a);
  }
  // ---------------- vectors / points
  for (int m = 0; m <= 64; m++) {
    gtsam::Vector v(m);
    for (int i = 0; i < m; i++) { uint64_t b = rng(); double d; memcpy(&d, &b, 8); v(i) = (i % 3 == 0) ? d : i + 0.5; }
    mxArray* a = wrap<gtsam::Vector>(v);
    COUNT("roundtrip:Vector");
    if (!mxIsDouble(a) || mxGetM(a) != (size_t)m || mxGetN(a) != 1) fail("wrapped Vector has the wrong class/shape", std::to_string(m));
    gtsam::Vector w = unwrap<gtsam::Vector>(a);
    if (w.size() != m || (m && memcmp(w.d.data(), v.d.data(), 8 * (size_t)m) != 0)) fail("Vector round trip changes the value", std::to_string(m));
    mxDestroyArray(a);
  }
  {
    gtsam::Point2 p; p(0) = 1.25; p(1) = -7; mxArray* a = wrap<gtsam::Point2>(p); gtsam::Point2 q = unwrap<gtsam::Point2>(a);
    COUNT("roundtrip:Point2");
    if (q(0) != p(0) || q(1) != p(1) || mxGetM(a) != 2 || mxGetN(a) != 1) fail("Point2 round trip", ""); mxDestroyArray(a);
    gtsam::Point3 r; r(0) = 1; r(1) = 2.5; r(2) = -3; a = wrap<gtsam::Point3>(r); gtsam::Point3 s = unwrap<gtsam::Point3>(a);
    COUNT("roundtrip:Point3");
    if (s(0) != r(0) || s(1) != r(1) || s(2) != r(2) || mxGetM(a) != 3 || mxGetN(a) != 1) fail("Point3 round trip", ""); mxDestroyArray(a);
  }
  // ---------------- matrices: shape, column-major layout, element positions
  for (int m = 0; m <= 9; m++) for (int n = 0; n <= 9; n++) {
    gtsam::Matrix A(m, n);
    for (int i = 0; i < m; i++) for (int j = 0; j < n; j++) A(i, j) = i * 1000 + j + 0.5;   // position-coded
    if (m * n >= 2) {
      // special values, compared bit by bit below: zeros of both signs, infinities, a denormal
      gtsam::Matrix Z(m, n);
      const double specials[] = {0.0, -0.0, 1.0 / 0.0, -1.0 / 0.0, 4.9406564584124654e-324, -2.5};
      for (int i = 0; i < m; i++) for (int j = 0; j < n; j++) Z(i, j) = specials[(i * n + j) % 6];
      mxArray* z = wrap<gtsam::Matrix>(Z);
      gtsam::Matrix Z2 = unwrap<gtsam::Matrix>(z);
      COUNT("roundtrip:Matrix-special-values");
      for (int i = 0; i < m; i++) for (int j = 0; j < n; j++) {
        double x = Z(i, j), y = Z2(i, j);
        if (memcmp(&x, &y, 8) != 0) { fail("Matrix round trip changes the bits of an element (signed zero / infinity / denormal)", std::to_string(m) + "x" + std::to_string(n)); i = m; break; }
      }
      mxDestroyArray(z);
    }
    mxArray* a = wrap<gtsam::Matrix>(A);
    COUNT("roundtrip:Matrix");
    std::string sh = std::to_string(m) + "x" + std::to_string(n);
    if (!mxIsDouble(a) || mxGetM(a) != (size_t)m || mxGetN(a) != (size_t)n) fail("wrapped Matrix has the wrong class/shape", sh);
    else {
      double* p = mxGetPr(a);
      for (int i = 0; i < m; i++) for (int j = 0; j < n; j++) if (p[(size_t)j * m + i] != A(i, j)) { fail("wrapped Matrix is not column-major: data[j*m+i] != A(i,j)", sh); i = m; break; }
    }
    gtsam::Matrix B = unwrap<gtsam::Matrix>(a);
    if (B.rows() != m || B.cols() != n) fail("Matrix round trip changes the shape", sh);
    else for (int i = 0; i < m; i++) for (int j = 0; j < n; j++) if (B(i, j) != A(i, j)) { fail("Matrix round trip moves or changes an element", sh); i = m; break; }
    mxDestroyArray(a);
    // from a MATLAB-made column-major array
    mxArray* c = mxCreateDoubleMatrix(m, n, mxREAL);
    for (int i = 0; i < m; i++) for (int j = 0; j < n; j++) mxGetPr(c)[(size_t)j * m + i] = i * 100 + j;
    gtsam::Matrix C = unwrap<gtsam::Matrix>(c);
    COUNT("unwrap:Matrix-from-matlab");
    if (C.rows() != m || C.cols() != n) fail("unwrap<Matrix> of a MATLAB array changes the shape", sh);
    else for (int i = 0; i < m; i++) for (int j = 0; j < n; j++) if (C(i, j) != i * 100 + j) { fail("unwrap<Matrix> reads MATLAB data in the wrong order", sh); i = m; break; }
    mxDestroyArray(c);
  }
  // ---------------- error matrix
  {
    size_t shapes[][2] = {{0, 0}, {1, 2}, {2, 1}, {2, 2}, {0, 1}, {3, 3}};
    for (auto& sh : shapes) {
      mxArray* a = mxCreateDoubleMatrix(sh[0], sh[1], mxREAL);
      std::string s = std::to_string(sh[0]) + "x" + std::to_string(sh[1]);
      COUNT("errors:nonscalar");
      if (!raises([&] { unwrap<bool>(a); })) fail("non-scalar accepted by unwrap<bool>", s);
      if (!raises([&] { unwrap<char>(a); })) fail("non-scalar accepted by unwrap<char>", s);
      if (!raises([&] { unwrap<unsigned char>(a); })) fail("non-scalar accepted by unwrap<unsigned char>", s);
      if (!raises([&] { unwrap<int>(a); })) fail("non-scalar accepted by unwrap<int>", s);
      if (!raises([&] { unwrap<size_t>(a); })) fail("non-scalar accepted by unwrap<size_t>", s);
      if (!raises([&] { unwrap<double>(a); })) fail("non-scalar accepted by unwrap<double>", s);
      mxDestroyArray(a);
    }
    mxClassID nonnum[] = {mxCHAR_CLASS, mxLOGICAL_CLASS, mxINT32_CLASS, mxUINT64_CLASS, mxSTRUCT_CLASS, mxSINGLE_CLASS, mxINT8_CLASS};
    for (mxClassID c : nonnum) {
      mxArray* a = (c == mxCHAR_CLASS) ? mxCreateString("abc") : (c == mxSTRUCT_CLASS ? mxCreateStructMatrix(1, 1, 0, 0) : mock::numeric(3, 1, c));
      COUNT("errors:nondouble");
      if (!raises([&] { unwrap<gtsam::Vector>(a); })) fail("non-double array accepted as Vector", std::to_string((int)c));
      if (!raises([&] { unwrap<gtsam::Matrix>(a); })) fail("non-double array accepted as Matrix", std::to_string((int)c));
      if (c != mxCHAR_CLASS && !raises([&] { unwrap<string>(a); })) fail("non-char array accepted as string", std::to_string((int)c));
      mxDestroyArray(a);
    }
    mxArray* a = mxCreateDoubleMatrix(2, 2, mxREAL);
    COUNT("errors:matrix-as-vector");
    if (!raises([&] { unwrap<gtsam::Vector>(a); })) fail("2x2 array accepted as Vector", "");
    if (!raises([&] { unwrap<string>(a); })) fail("double array accepted as string", "");
    mxDestroyArray(a);
    if (!raises([&] { checkArguments("f", 0, 2, 3); })) fail("checkArguments accepts a wrong argument count", "");
    try { checkArguments("f", 0, 3, 3); } catch (MexError&) { fail("checkArguments rejects the right argument count", ""); }
  }
  // ---------------- enums
  {
    enum class Kind { A = 0, B = 1, C = 7 };
    mock::callMATLAB = [](int, mxArray** plhs, int, mxArray** prhs, const std::string& name) -> int {
      if (name == "int32") { mxArray* a = mock::numeric(1, 1, mxINT32_CLASS); int32_t v = (int32_t)mxGetScalar(prhs[0]); memcpy(a->data.data(), &v, 4); plhs[0] = a; return 0; }
      mxArray* o = mxDuplicateArray(prhs[0]); o->objclass = name; plhs[0] = o; return 0; };
    for (Kind k : {Kind::A, Kind::B, Kind::C}) {
      mock::begin_call();
      mxArray* a = wrap_enum(k, "pkg.Kind");
      Kind b = unwrap_enum<Kind>(a);
      COUNT("roundtrip:enum");
      if (b != k) fail("enum round trip changes the value", std::to_string((int)k));
      if (a->objclass != "pkg.Kind") fail("wrap_enum does not construct the MATLAB enumeration class", a->objclass);
      mock::end_call(nullptr, 0);
    }
  }
  // ---------------- object handles: random histories
  {
    // MATLAB side of create_object: `Cls(key, ptr)` stores the pointer in property ptr_<Cls>
    mock::callMATLAB = [](int, mxArray** plhs, int nrhs, mxArray** prhs, const std::string& name) -> int {
      if (nrhs < 2) throw MexError("mock", "pointer constructor needs key and pointer");
      uint64_t key; memcpy(&key, mxGetData(prhs[0]), 8);
      if (key != ptr_constructor_key) throw MexError("mock", "pointer constructor called with the wrong key");
      mxArray* o = mock::make_object(name);
      mock::set_prop(o, "ptr_" + name, mxDuplicateArray(prhs[1]));
      plhs[0] = o; return 0; };
    struct Handle { mxArray* h; long tag; std::shared_ptr<Obj>* heap; };
    for (long hi = 0; hi < nhist; hi++) {
      std::vector<std::shared_ptr<Obj>> cpp;     // references held on the C++ side
      std::vector<Handle> handles;               // MATLAB-side handles
      long steps = 10 + rng() % 290;
      long next_tag = 1;
      for (long s = 0; s < steps; s++) {
        int op = rng() % 7;
        if (op == 0 || cpp.empty()) { cpp.push_back(std::make_shared<Obj>(next_tag++)); COUNT("hist:new"); }
        else if (op == 1) {               // wrap: hand a handle to MATLAB
          // now and then the C++ side hands out an empty pointer ("not found"): a handle of its own all the same
          std::shared_ptr<Obj> none;
          bool empty = (rng() % 7) == 0;
          auto& sp = empty ? none : cpp[rng() % cpp.size()];
          if (empty) COUNT("hist:wrap_empty");
          mock::begin_call();
          mxArray* h = wrap_shared_ptr(sp, "Obj", false);
          mxArray* keep[1] = {h};
          mock::end_call(keep, 1);
          // the heap shared_ptr* stored in the handle
          mxArray* p = mxGetProperty(h, 0, "ptr_Obj");
          std::shared_ptr<Obj>* heap = *reinterpret_cast<std::shared_ptr<Obj>**>(mxGetData(p));
          mxDestroyArray(p);
          for (auto& other : handles) if (other.heap == heap) fail("two handles share one heap cell", std::to_string(other.tag));
          handles.push_back({h, sp ? sp->tag : 0, heap});
          COUNT("hist:wrap");
        } else if (op == 2 && !handles.empty()) {   // unwrap: must designate the same object
          auto& H = handles[rng() % handles.size()];
          mock::begin_call();
          std::shared_ptr<Obj> back = unwrap_shared_ptr<Obj>(H.h, "ptr_Obj");
          mock::end_call(nullptr, 0);
          COUNT("hist:unwrap_shared");
          if (H.tag == 0) { if (back) fail("unwrap_shared_ptr of an empty handle designates an object", "0"); }
          else {
            if (!back || back->tag != H.tag || back.get() != H.heap->get()) fail("unwrap_shared_ptr designates a different object", std::to_string(H.tag));
            if (rng() % 2) cpp.push_back(back);
          }
        } else if (op == 3 && !handles.empty()) {   // raw pointer unwrap
          auto& H = handles[rng() % handles.size()];
          mock::begin_call();
          Obj* raw = unwrap_ptr<Obj>(H.h, "ptr_Obj");
          bool same = (raw == H.heap->get());
          mock::end_call(nullptr, 0);
          COUNT("hist:unwrap_ptr");
          if (!same) fail("unwrap_ptr designates a different object", std::to_string(H.tag));
        } else if (op == 4 && !handles.empty()) {   // release a handle (what the generated deconstructor does)
          size_t k = rng() % handles.size();
          delete handles[k].heap;
          mock::destroy(handles[k].h);
          handles.erase(handles.begin() + k);
          COUNT("hist:release");
        } else if (op == 5 && !cpp.empty()) {       // drop a C++ reference
          cpp.erase(cpp.begin() + rng() % cpp.size());
          COUNT("hist:drop");
        } else if (op == 6 && !cpp.empty()) {       // copy a C++ reference
          cpp.push_back(cpp[rng() % cpp.size()]);
        }
        // quiescent point: live objects == distinct objects referenced by cpp or handles
        std::set<Obj*> distinct;
        for (auto& sp : cpp) distinct.insert(sp.get());
        for (auto& H : handles) if (H.heap->get()) distinct.insert(H.heap->get());
        COUNT("hist:quiescent_checks");
        if (Obj::live != (long)distinct.size()) { fail("live-instance count disagrees with outstanding handles/references", std::to_string(Obj::live) + " vs " + std::to_string(distinct.size())); break; }
      }
      for (auto& H : handles) { delete H.heap; mock::destroy(H.h); }
      handles.clear(); cpp.clear();
      if (Obj::live != 0) { fail("objects alive after every handle and reference was released", std::to_string(Obj::live)); Obj::live = 0; }
    }
  }
  mock::callMATLAB = nullptr;
  if (mock::live_arrays() != 0) fail("mxArrays leaked by matlab.h conversions", std::to_string(mock::live_arrays()));
  for (auto& c : counts) printf("COUNT %s %ld\n", c.first.c_str(), c.second);
  printf("DONE fails=%ld\n", n_fail);
  return 0;
}
