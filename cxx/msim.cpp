// MATLAB session simulator (C11): drives the generated MEX gateway (compiled unedited together with the real
// matlab.h) exactly the way the generated .m files do, following a script produced by the Python side from the
// plan extracted from those .m files.  usage: msim <script>
//
// script lines (tab separated):
//   CLASS <matlab class> <parent class|-> <ptr property> <collector id> <upcast id|-1> <delete id> <returns_base 0/1>
//   NEW <var> <class> <ctor id> <nargs> <arg>...           constructor branch of the classdef
//   CALL <id> <nout> <self var|-> <nargs> <arg>... <outvar|->*nout   method / static / function / accessor
//   VOIDNEW <var> <class> <src var>                        the 'void' up-cast constructor path of a virtual class
//   DEL <var>                                              MATLAB delete(obj): subclass first, then each superclass
//   UNLOAD                                                 clear mex: mexAtExit callbacks, all handles forgotten
// arguments:  d:<double>  l:<0|1>  c:<hex bytes>  o:<var>  e:<enum class>:<int>  v:<n>:<x;...>  m:<r>:<c>:<row-major x;...>
// output: one block per op:  OP <n> <kind> ok | MEXERROR <text>;  OUT <k> <value>;  T <trace line>;  LIVE <k=v,...>
#include "mockmex.h"
#include <cinttypes>
#include <cstdio>
#include <cstring>
#include <fstream>
#include <iostream>
#include <sstream>
#include "lib.h"

extern "C++" void mexFunction(int nargout, mxArray* out[], int nargin, const mxArray* in[]);

struct ClassInfo { std::string name, parent, ptrprop; int collector, upcast, del; bool returns_base; };
static std::map<std::string, ClassInfo> classes;
static std::map<std::string, mxArray*> vars;      // MATLAB workspace: handle objects
static const uint64_t KEY = 5139824614673773682ULL;

static std::vector<std::string> split(const std::string& s, char sep) {
  std::vector<std::string> out; std::string cur; for (char c : s) { if (c == sep) { out.push_back(cur); cur.clear(); } else cur += c; } out.push_back(cur); return out; }

// one gateway call as a MEX function invocation: temporaries are destroyed afterwards (MATLAB's memory rule)
static std::vector<mxArray*> gateway(int id, const std::vector<mxArray*>& args, int nout) {
  mock::begin_call();
  mxArray* idarr = mxCreateDoubleScalar(id);
  std::vector<const mxArray*> in; in.push_back(idarr); for (auto a : args) in.push_back(a);
  std::vector<mxArray*> out((size_t)(nout > 0 ? nout : 1), nullptr);
  try { mexFunction(nout, out.data(), (int)in.size(), in.data()); }
  catch (...) { mock::end_call(nullptr, 0); throw; }
  mock::end_call(out.data(), (int)out.size());
  return out;
}

static mxArray* keyarr() { mxArray* a = mock::numeric(1, 1, mxUINT64_CLASS); memcpy(a->data.data(), &KEY, 8); return a; }

// MATLAB: obj = Cls(key, my_ptr)  (pointer constructor incl. base-class chaining) -- fills the properties of `obj`
static void pointer_ctor(mxArray* obj, const std::string& cls, mxArray* my_ptr) {
  auto it = classes.find(cls);
  if (it == classes.end()) throw MexError("sim", "pointer constructor of unknown MATLAB class " + cls);
  ClassInfo& c = it->second;
  std::vector<mxArray*> out = gateway(c.collector, {my_ptr}, c.returns_base ? 1 : 0);
  if (c.returns_base) {
    if (!out[0]) throw MexError("sim", "collector routine of " + cls + " returned no base pointer");
    pointer_ctor(obj, c.parent, out[0]);     // obj = obj@Parent(key, base_ptr)
    mock::destroy(out[0]);
  }
  mock::set_prop(obj, c.ptrprop, mxDuplicateArray(my_ptr));
}

static int on_call_matlab(int nlhs, mxArray** plhs, int nrhs, mxArray** prhs, const std::string& name) {
  if (name == "int32") { mxArray* a = mock::numeric(1, 1, mxINT32_CLASS); int32_t v = (int32_t)mxGetScalar(prhs[0]); memcpy(a->data.data(), &v, 4); plhs[0] = a; return 0; }
  if (classes.count(name)) {
    // Cls(key, ptr) or Cls(key, ptr, 'void')
    if (nrhs < 2) throw MexError("sim", "class constructor called from C++ without key and pointer");
    uint64_t k; memcpy(&k, mxGetData(prhs[0]), 8);
    if (k != KEY) throw MexError("sim", "pointer constructor called with a wrong key");
    mxArray* obj = mock::make_object(name);
    mxArray* my_ptr = prhs[1];
    mxArray* up = nullptr;
    if (nrhs == 3) { ClassInfo& c = classes[name]; if (c.upcast < 0) throw MexError("sim", "'void' constructor of a non-virtual class"); auto o = gateway(c.upcast, {prhs[1]}, 1); up = o[0]; my_ptr = up; }
    pointer_ctor(obj, name, my_ptr);
    if (up) mock::destroy(up);
    plhs[0] = obj; return 0;
  }
  // enumeration class constructor: EnumCls(double value)
  mxArray* e = mxDuplicateArray(prhs[0]); e->objclass = name; plhs[0] = e; return 0;
}

static std::string hexdec(const std::string& h) { std::string s; for (size_t i = 0; i + 1 < h.size(); i += 2) s += (char)strtol(h.substr(i, 2).c_str(), 0, 16); return s; }

static mxArray* make_arg(const std::string& a) {
  std::vector<std::string> p = split(a, ':');
  if (p[0] == "d") return mxCreateDoubleScalar(strtod(p[1].c_str(), 0));
  if (p[0] == "l") { mxArray* x = mock::numeric(1, 1, mxLOGICAL_CLASS); x->data[0] = (unsigned char)atoi(p[1].c_str()); return x; }
  if (p[0] == "c") return mock::chars(hexdec(p[1]));
  if (p[0] == "o") { auto it = vars.find(p[1]); if (it == vars.end()) throw MexError("sim", "script uses unknown variable " + p[1]); return it->second; }
  if (p[0] == "e") { mxArray* x = mxCreateDoubleScalar(atof(p[2].c_str())); x->objclass = p[1]; return x; }
  if (p[0] == "v") { int n = atoi(p[1].c_str()); mxArray* x = mxCreateDoubleMatrix(n, 1, mxREAL); auto xs = split(p.size() > 2 ? p[2] : "", ';'); for (int i = 0; i < n; i++) mxGetPr(x)[i] = strtod(xs[i].c_str(), 0); return x; }
  if (p[0] == "m") { int r = atoi(p[1].c_str()), c = atoi(p[2].c_str()); mxArray* x = mxCreateDoubleMatrix(r, c, mxREAL); auto xs = split(p.size() > 3 ? p[3] : "", ';'); for (int i = 0; i < r; i++) for (int j = 0; j < c; j++) mxGetPr(x)[(size_t)j * r + i] = strtod(xs[(size_t)i * c + j].c_str(), 0); return x; }
  throw MexError("sim", "bad argument encoding " + a);
}

static std::string describe(const mxArray* a) {
  if (!a) return "unset";
  char b[64];
  if (a->cls == mxOBJECT_CLASS) return "obj:" + a->objclass;
  if (!a->objclass.empty()) { snprintf(b, sizeof b, "%.17g", mxGetScalar(a)); return "enum:" + a->objclass + ":" + b; }
  std::string s;
  if (a->cls == mxCHAR_CLASS) { s = "char:"; for (unsigned char c : a->data) { snprintf(b, sizeof b, "%02x", c); s += b; } return s; }
  snprintf(b, sizeof b, "num:%d:%zux%zu:", (int)a->cls, a->m, a->n); s = b;
  size_t es = mock::elsize(a->cls);
  for (size_t i = 0; i < a->m * a->n; i++) {
    const unsigned char* p = a->data.data() + i * es;
    if (a->cls == mxDOUBLE_CLASS) { double v; memcpy(&v, p, 8); snprintf(b, sizeof b, "%.17g", v); }
    else if (a->cls == mxUINT64_CLASS) { uint64_t v; memcpy(&v, p, 8); snprintf(b, sizeof b, "%" PRIu64, v); }
    else snprintf(b, sizeof b, "%g", mxGetScalar(a));
    if (i) s += ";"; s += b;
  }
  return s;
}

static void dump_state() {
  vt::ref_pool().clear();      // referents of reference returns die once the call that received them is over
  for (auto& l : vt::trace()) { std::string x = l; for (auto& ch : x) { if (ch == '\n') ch = ' '; } printf("T %s\n", x.c_str()); }
  vt::trace().clear();
  std::string s;
  for (auto& kv : vt::live()) if (kv.second != 0) { if (!s.empty()) s += "\x1f"; s += kv.first + "=" + std::to_string(kv.second); }
  printf("LIVE %s\n", s.c_str());
}

static void delete_var(const std::string& v) {
  auto it = vars.find(v);
  if (it == vars.end()) throw MexError("sim", "DEL of unknown variable " + v);
  mxArray* obj = it->second;
  std::string cls = obj->objclass;
  while (cls != "-" && !cls.empty()) {         // MATLAB destroys the subclass part first, then each superclass
    ClassInfo& c = classes.at(cls);
    mxArray* p = mxGetProperty(obj, 0, c.ptrprop.c_str());
    if (!p) throw MexError("sim", "object has no property " + c.ptrprop);
    gateway(c.del, {p}, 0);
    mock::destroy(p);
    cls = c.parent;
  }
  mock::destroy(obj);
  vars.erase(it);
}

int main(int argc, char** argv) {
  if (argc < 2) return 2;
  std::ifstream f(argv[1]);
  std::string line;
  mock::callMATLAB = on_call_matlab;
  long opn = 0;
  while (std::getline(f, line)) {
    if (line.empty() || line[0] == '#') continue;
    std::vector<std::string> t = split(line, '\t');
    if (t[0] == "CLASS") { classes[t[1]] = ClassInfo{t[1], t[2], t[3], atoi(t[4].c_str()), atoi(t[5].c_str()), atoi(t[6].c_str()), t[7] == "1"}; continue; }
    opn++;
    printf("OP %ld %s ", opn, t[0].c_str());
    try {
      if (t[0] == "NEW") {
        const std::string& var = t[1]; const std::string& cls = t[2]; int id = atoi(t[3].c_str()); int n = atoi(t[4].c_str());
        ClassInfo& c = classes.at(cls);
        std::vector<mxArray*> args, owned;
        for (int i = 0; i < n; i++) { mxArray* a = make_arg(t[5 + i]); args.push_back(a); if (t[5 + i][0] != 'o') owned.push_back(a); }
        bool hasparent = c.parent != "-";
        std::vector<mxArray*> out;
        try { out = gateway(id, args, hasparent ? 2 : 1); } catch (...) { for (auto a : owned) mock::destroy(a); throw; }
        for (auto a : owned) mock::destroy(a);
        if (!out[0] || (hasparent && !out[1])) throw MexError("sim", "constructor routine returned no pointer");
        mxArray* obj = mock::make_object(cls);
        if (hasparent) { pointer_ctor(obj, c.parent, out[1]); mock::destroy(out[1]); }
        mock::set_prop(obj, c.ptrprop, out[0]);
        vars[var] = obj;
        printf("ok\n");
      } else if (t[0] == "CALL") {
        int id = atoi(t[1].c_str()); int nout = atoi(t[2].c_str()); const std::string& self = t[3]; int n = atoi(t[4].c_str());
        std::vector<mxArray*> args, owned;
        if (self != "-") { auto it = vars.find(self); if (it == vars.end()) throw MexError("sim", "unknown receiver " + self); args.push_back(it->second); }
        for (int i = 0; i < n; i++) { mxArray* a = make_arg(t[5 + i]); args.push_back(a); if (t[5 + i][0] != 'o') owned.push_back(a); }
        std::vector<mxArray*> out;
        try { out = gateway(id, args, nout); } catch (...) { for (auto a : owned) mock::destroy(a); throw; }
        for (auto a : owned) mock::destroy(a);
        printf("ok\n");
        for (int k = 0; k < nout; k++) {
          const std::string& ov = t[5 + n + k];
          printf("OUT %d %s\n", k, describe(out[k]).c_str());
          if (out[k] && out[k]->cls == mxOBJECT_CLASS && ov != "-") { if (vars.count(ov)) throw MexError("sim", "output variable reused"); vars[ov] = out[k]; }
          else if (out[k]) mock::destroy(out[k]);
        }
        if (nout == 0 && out[0]) { printf("OUT 0 unexpected:%s\n", describe(out[0]).c_str()); mock::destroy(out[0]); }
      } else if (t[0] == "VOIDNEW") {
        const std::string& var = t[1]; const std::string& cls = t[2]; const std::string& src = t[3];
        ClassInfo& c = classes.at(cls);
        mxArray* sobj = vars.at(src);
        // what wrap_shared_ptr(..., isVirtual=true) hands to MATLAB: the address of a shared_ptr<void>
        ClassInfo& sc = classes.at(sobj->objclass);
        mxArray* p = mxGetProperty(sobj, 0, sc.ptrprop.c_str());
        std::shared_ptr<void>* typed = *reinterpret_cast<std::shared_ptr<void>**>(mxGetData(p));   // shared_ptr<T>* has the layout of shared_ptr<void>*
        std::shared_ptr<void> asvoid = *typed;
        mock::destroy(p);
        mxArray* vp = mock::numeric(1, 1, mxUINT64_CLASS);
        void* addr = &asvoid; memcpy(vp->data.data(), &addr, 8);
        mxArray* in[3] = {keyarr(), vp, mock::chars("void")};
        mxArray* res = nullptr;
        on_call_matlab(1, &res, 3, in, cls);
        mock::destroy(in[0]); mock::destroy(in[1]); mock::destroy(in[2]);
        vars[var] = res;
        printf("ok\n");
      } else if (t[0] == "DEL") {
        delete_var(t[1]);
        printf("ok\n");
      } else if (t[0] == "UNLOAD") {
        for (auto fn : mock::atexit_fns) fn();
        mock::atexit_fns.clear();
        for (auto& v : vars) mock::destroy(v.second);     // stale handles are forgotten, not deleted
        vars.clear();
        printf("ok\n");
      } else {
        printf("MEXERROR unknown op\n");
      }
    } catch (MexError& e) {
      std::string m = e.what(); for (auto& ch : m) if (ch == '\n') ch = ' ';
      printf("MEXERROR %s\n", m.c_str());
    } catch (std::exception& e) {
      printf("MEXERROR simulator: %s\n", e.what());
    }
    dump_state();
  }
  // end of session: unload whatever is left, then everything must be gone
  for (auto fn : mock::atexit_fns) fn();
  for (auto& v : vars) mock::destroy(v.second);
  vars.clear();
  printf("END\n");
  dump_state();
  mock::destroy_globals();
  printf("ARRAYS %zu\n", mock::live_arrays());
  printf("PRINTED %zu\n", mock::printed.size());
  return 0;
}
