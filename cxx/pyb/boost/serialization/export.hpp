// stub: Boost is not installed in the sandbox; the generated code only needs BOOST_CLASS_EXPORT to expand to nothing
#pragma once
#ifndef BOOST_CLASS_EXPORT
#define BOOST_CLASS_EXPORT(x)
#endif
