#include "pch.h"
#include "verif_stubs.h"
#include "lib.h"
{includes}

{boost_class_export}

using namespace std;
namespace py = pybind11;

{submodules}

{module_def} {{
    m_.doc() = "pybind11 wrapper of {module_name}";

{submodules_init}

{wrapped_namespace}

    m_.def("_verif_trace_{module_name}", [](){{ auto t = vt::trace(); vt::trace().clear(); return t; }});
    m_.def("_verif_live_{module_name}", [](){{ return vt::live(); }});
}}
