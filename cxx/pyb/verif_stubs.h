// Harness-owned stand-ins for what a user's module template normally pulls in from GTSAM / Boost.
#pragma once
#include <iostream>
#include <sstream>
#include <string>
#ifndef BOOST_CLASS_EXPORT
#define BOOST_CLASS_EXPORT(x)
#endif
namespace gtsam {
struct RedirectCout {
  std::stringstream ss;
  std::streambuf* old;
  RedirectCout() : old(std::cout.rdbuf(ss.rdbuf())) {}
  std::string str() const { return ss.str(); }
  ~RedirectCout() { std::cout.rdbuf(old); }
};
template <class T> std::string serialize(const T& t) { return "ser:" + T::vt_name() + ":" + std::to_string(t.vt_origin); }
template <class T> void deserialize(const std::string& s, T& t) { t.vt_origin = std::stol(s.substr(s.rfind(':') + 1)); }
}  // namespace gtsam
