"""Driver executed inside the interpreter that imports the generated pybind11 module (C04).

usage: python driver.py <plan.json> <module dir> <seed>
Calls every binding of the plan (positional, keyword-permuted, default-omitting), reads the trace of
the instrumented library after every call and compares entity / receiver / argument values / result.
Prints one JSON object: {"calls":..,"checked":..,"violations":[...],"skipped":{...}}
"""
import json
import random
import re
import sys

plan = json.load(open(sys.argv[1]))
sys.path.insert(0, sys.argv[2])
R = random.Random(int(sys.argv[3]))
import m  # noqa: E402

OUT = {'calls': 0, 'checked': 0, 'violations': [], 'skipped': {}, 'bindings': 0, 'kw_calls': 0, 'default_calls': 0,
       'objects_identified': 0}
TRACE = getattr(m, '_verif_trace_m')
LIVE = getattr(m, '_verif_live_m')


def skip(why):
    OUT['skipped'][why] = OUT['skipped'].get(why, 0) + 1


def viol(what, **kw):
    if len(OUT['violations']) < 30:
        d = {'what': what}
        d.update(kw)
        OUT['violations'].append(d)


def resolve(path):
    o = m
    for p in path:
        o = getattr(o, p)
    return o


def fmt_double(x):
    return '%.17g' % x


class NoValue(Exception):
    pass


POOL = {}     # class canon -> [python objects]


def origin(obj):
    return m._verif_origin(obj)


EXACT = {}    # class canon -> [python objects whose dynamic type is exactly that class]


def make_object(canon, depth=0, exact=False):
    """an instance of class `canon` (or, unless exact, of a class derived from it)."""
    if exact:
        if EXACT.get(canon):
            return R.choice(EXACT[canon])
        rec = next((c for c in plan['classes'] if c['class'] == canon), None)
        if rec is None or not rec['ctors'] or plan['class_table'].get(canon, {}).get('py') is None:
            raise NoValue('no constructor for ' + canon)
    elif POOL.get(canon):
        return R.choice(POOL[canon])
    if depth > 3:
        raise NoValue('recursion building ' + canon)
    if plan['class_table'].get(canon, {}).get('py') is None:
        raise NoValue('class outside the top namespace')
    rec = next((c for c in plan['classes'] if c['class'] == canon), None)
    if rec is None or not rec['ctors']:
        # maybe a derived class can be constructed
        for c in plan['classes']:
            if c['base'] == canon and c['ctors']:
                o = make_object(c['class'], depth + 1)
                POOL.setdefault(canon, []).append(o)
                return o
        raise NoValue('no constructor for ' + canon)
    cls = resolve(rec['py'])
    ctor = min(rec['ctors'], key=lambda c: len(c['args']))
    vals = [value_for(a['type'], i, depth + 1)[0] for i, a in enumerate(ctor['args'])]
    TRACE()
    o = cls(*vals)
    TRACE()
    POOL.setdefault(canon, []).append(o)
    EXACT.setdefault(canon, []).append(o)
    return o


def value_for(t, i, depth=0):
    """-> (python value, expected serialisation in the trace)"""
    c = t['cat']
    salt = R.randint(0, 50)
    if c == 'bool':
        v = bool((i + salt) % 2)
        return v, 'true' if v else 'false'
    if c == 'char':
        v = chr(97 + (i * 3 + salt) % 26)
        return v, 'c%d' % ord(v)
    if c == 'uchar':
        v = 100 + (i * 7 + salt) % 150
        return v, 'uc%d' % v
    edge = R.random() < 0.12            # now and then a value from the edge of the type
    if c == 'int':
        v = (i + 1) * 11 + salt - 40
        if edge:
            v = R.choice([0, -1, -2147483648, 2147483647, -(i + 1) * 1000003])
        return v, str(v)
    if c == 'size_t':
        v = (i + 1) * 13 + salt
        if edge:
            v = R.choice([0, 2 ** 32 + i, 2 ** 53 + 1 + i, 2 ** 64 - 1 - i])
        return v, str(v)
    if c == 'double':
        v = (i + 1) * 1.5 + salt + 0.125
        if edge:
            v = R.choice([0.0, -0.5 - i, 1e300, -1e-300, 123456789.125 + i])
        return v, fmt_double(v)
    if c == 'string':
        v = 'arg%d_%d' % (i, salt)
        if edge:
            v = R.choice(['', ' ', 'a b  c', 'q"uote', "it's", 'back\\slash', 'caf\u00e9 \u6f22', 'x' * 300])
        return v, "'%s'" % v
    if c == 'enum':
        e = plan['enum_table'][t['enum']]
        if e['py'] is None:
            raise NoValue('enum outside the top namespace')
        name, val = e['vals'][(i + salt) % len(e['vals'])]
        return getattr(resolve(e['py']), name), 'e%d' % val
    if c == 'vector':
        n = R.choice([2, 2, 0, 1, 5])
        items = [value_for(t['elem'], i + j, depth) for j in range(n)]
        return [a for a, _ in items], '[%s]' % ','.join(s_ for _, s_ in items)
    if c == 'object':
        o = make_object(t['class'], depth)
        if t.get('mode') in ('ref', 'shared', 'raw'):
            # received by reference / pointer: C++ must see this very object, not a copy
            OUT['identity_args'] = OUT.get('identity_args', 0) + 1
            return o, '#%d@%d' % (origin(o), m._verif_tag(o))
        return o, '#%d' % origin(o)
    raise NoValue('type category ' + c + ' ' + str(t.get('spelling')))


def default_ser(text, t):
    """expected serialisation of a default-value expression; None = any"""
    c = t['cat']
    text = text.strip()
    try:
        if c in ('int', 'size_t'):
            return str(int(text))
        if c == 'double':
            if re.match(r'^[\d\.\s\+\-\*\(\)eE]+$', text):
                return fmt_double(float(eval(text, {'__builtins__': {}})))
            return fmt_double(float(text))
        if c == 'bool':
            return {'true': 'true', 'false': 'false'}[text]
        if c == 'char':
            return 'c%d' % ord(text[1])
        if c == 'uchar':
            return 'uc%d' % int(text)
        if c == 'string':
            return "'%s'" % text[1:-1]
        if c == 'enum':
            name = text.split('::')[-1]
            e = plan['enum_table'][t['enum']]
            return 'e%d' % dict(e['vals'])[name]
        if c == 'vector':
            inner = text[text.index('{') + 1:text.rindex('}')]
            items = [x.strip() for x in inner.split(',')]
            return '[' + ','.join(default_ser(x, t['elem']) for x in items) + ']'
        if c == 'object':
            return None
    except Exception:
        return None
    return None


def check_result(res, rcat, logged, where):
    """Python-side result vs the value the library logged as returned."""
    c = rcat['cat']
    if c == 'void':
        if res is not None:
            viol('void binding returned a value', where=where, result=repr(res)[:80])
        if logged != 'void':
            viol('library logged a non-void return for a void binding', where=where, logged=logged)
        return
    if logged == 'void' or logged == '':
        viol('binding declared with a result but the library logged void', where=where)
        return
    if res is None:
        viol('non-void binding returned None (result dropped)', where=where, logged=logged)
        return
    OUT['checked'] += 1
    if c == 'pair':
        if not (isinstance(res, tuple) and len(res) == 2):
            viol('pair result is not a 2-tuple', where=where, result=repr(res)[:80])
            return
        inner = logged[1:-1]
        # split at the top-level comma
        depth = 0
        cut = None
        for k, ch in enumerate(inner):
            if ch in '([':
                depth += 1
            elif ch in ')]':
                depth -= 1
            elif ch == ',' and depth == 0:
                cut = k
                break
        check_result(res[0], rcat['first'], inner[:cut], where + '.first')
        check_result(res[1], rcat['second'], inner[cut + 1:], where + '.second')
        return
    got = None
    if c == 'bool':
        got = 'true' if res is True else ('false' if res is False else repr(res))
    elif c == 'char':
        got = 'c%d' % ord(res) if isinstance(res, str) and len(res) == 1 else repr(res)
    elif c == 'uchar':
        got = 'uc%d' % (ord(res) if isinstance(res, str) else int(res))
    elif c in ('int', 'size_t'):
        got = str(res)
    elif c == 'double':
        got = fmt_double(res)
    elif c == 'string':
        got = "'%s'" % res
    elif c == 'enum':
        got = 'e%d' % int(res)
    elif c == 'vector':
        def s(x, ec):
            if ec['cat'] == 'double':
                return fmt_double(x)
            if ec['cat'] == 'string':
                return "'%s'" % x
            return str(x)
        got = '[' + ','.join(s(x, rcat['elem']) for x in res) + ']'
    elif c == 'object':
        try:
            got = '#%d' % origin(res)
            OUT['objects_identified'] += 1
            POOL.setdefault(rcat['class'], []).append(res)
            if rcat.get('mode') in ('value', 'ref'):
                EXACT.setdefault(rcat['class'], []).append(res)     # a copy made by the wrapper: exactly that class
        except TypeError:
            got = 'unidentifiable %r' % type(res)
    if got != logged:
        viol('Python-side result differs from the value the library returned', where=where, python=got, library=logged)


def expect_trace(lines, entity, self_ser, arg_sers, where):
    """exactly one library entry for this call; returns the logged result."""
    mine = [l for l in lines if l.split('\x1e')[0] == entity]
    if entity.endswith('>') and '::' in entity and '<' in entity.rsplit('::', 1)[1]:
        OUT['templated_calls'] = OUT.get('templated_calls', 0) + 1      # member / function template instantiations
    if len(lines) == 0:
        viol('binding did not reach the C++ library', where=where, expected=entity)
        return None
    if len(mine) != 1:
        viol('binding reached a different C++ entity', where=where, expected=entity,
             trace=[l.split('\x1e')[0] for l in lines][:4])
        return None
    ent, slf, args, ret = mine[0].split('\x1e')[:4]
    if self_ser is not None and slf != self_ser:
        viol('call dispatched on the wrong receiver', where=where, expected=self_ser, actual=slf)
    want = arg_sers
    got = args.split('\x1f') if args else []
    # object defaults are unpredictable (fresh object): accept '#<n>' for None entries
    if len(got) != len(want) or any(w is not None and w != g for w, g in zip(want, got)):
        viol('C++ entity received different argument values', where=where, expected=want, actual=got)
    return ret


def unexposed(rcat):
    c = rcat['cat']
    if c == 'pair':
        return unexposed(rcat['first']) or unexposed(rcat['second'])
    if c == 'object':
        return plan['class_table'].get(rcat['class'], {}).get('py') is None
    if c == 'enum':
        return plan['enum_table'].get(rcat['enum'], {}).get('py') is None
    if c == 'vector':
        return unexposed(rcat['elem'])
    return c == 'unknown'


def call_variants(fn, args, entity, self_ser, where, rcat):
    """positional call, keyword call in permuted order, every default omission."""
    n = len(args)
    if unexposed(rcat):
        skip('result type outside the top namespace')
        return
    try:
        vals = [value_for(a['type'], i) for i, a in enumerate(args)]
    except NoValue as e:
        skip(str(e)[:60])
        return
    OUT['bindings'] += 1
    # 1. positional
    TRACE()
    try:
        res = fn(*[v for v, _ in vals])
    except Exception as e:
        viol('positional call raised', where=where, error='%s: %s' % (type(e).__name__, str(e)[:200]))
        return
    OUT['calls'] += 1
    ret = expect_trace(TRACE(), entity, self_ser, [s for _, s in vals], where)
    if ret is not None:
        check_result(res, rcat, ret, where)
    # 2. keywords, permuted
    if n:
        try:
            vals = [value_for(a['type'], i + 3) for i, a in enumerate(args)]
        except NoValue:
            return
        order = list(range(n))
        R.shuffle(order)
        kw = {}
        for j in order:
            kw[args[j]['name']] = vals[j][0]
        TRACE()
        try:
            res = fn(**kw)
            OUT['calls'] += 1
            OUT['kw_calls'] += 1
            ret = expect_trace(TRACE(), entity, self_ser, [s for _, s in vals], where + ' (keywords)')
            if ret is not None:
                check_result(res, rcat, ret, where + ' (keywords)')
        except Exception as e:
            viol('keyword call raised (keyword names not as declared?)', where=where,
                 keywords=list(kw), error='%s: %s' % (type(e).__name__, str(e)[:200]))
    # 3. default omission
    ndef = 0
    for a in reversed(args):
        if a['default'] is None:
            break
        ndef += 1
    for k in range(1, ndef + 1):
        try:
            vals = [value_for(a['type'], i + 5) for i, a in enumerate(args[:n - k])]
        except NoValue:
            return
        TRACE()
        try:
            res = fn(*[v for v, _ in vals])
        except Exception as e:
            viol('call omitting defaulted arguments raised', where=where, omitted=k,
                 error='%s: %s' % (type(e).__name__, str(e)[:200]))
            continue
        OUT['calls'] += 1
        OUT['default_calls'] += 1
        want = [s for _, s in vals] + [default_ser(a['default'], a['type']) for a in args[n - k:]]
        ret = expect_trace(TRACE(), entity, self_ser, want, where + ' (omitting %d)' % k)
        if ret is not None:
            check_result(res, rcat, ret, where + ' (defaults)')


def run():
    # enums: names and values
    for e in plan['enums'] + [{'py': c['py'] + [x['name']], 'vals': x['vals']} for c in plan['classes'] for x in c['enums']]:
        try:
            E = resolve(e['py'])
        except AttributeError:
            viol('enum not found in module', path=e['py'])
            continue
        for name, val in e['vals']:
            OUT['checked'] += 1
            try:
                if int(getattr(E, name)) != val:
                    viol('enumerator maps to another C++ value', enum=e['py'], name=name, expected=val,
                         actual=int(getattr(E, name)))
            except AttributeError:
                viol('enumerator missing', enum=e['py'], name=name)
        members = getattr(E, '__members__', {})
        if set(members) != {n for n, _ in e['vals']}:
            viol('enumerator set differs', enum=e['py'], expected=sorted(n for n, _ in e['vals']), actual=sorted(members))
    for a in plan['attrs']:
        try:
            v = resolve(a['py'])
            OUT['checked'] += 1
            if a.get('value') is not None and (v != a['value'] or type(v) is not type(a['value'])):
                viol('module variable has another value than the C++ variable / its initialiser', path=a['py'],
                     expected=a['value'], actual=repr(v))
        except AttributeError:
            viol('module attribute missing', path=a['py'])
    # phase 1: constructors, static methods and free functions (they also supply instances of classes that have
    # no constructor); phase 2: everything that needs a receiver
    for phase in (1, 2):
        _classes(phase)
        if phase == 1:
            _functions()


def _functions():
    for f in plan['functions']:
        try:
            fn = resolve(f['py'])
        except AttributeError:
            viol('function binding missing', path=f['py'])
            continue
        call_variants(fn, f['args'], f['entity'], 'fn', '.'.join(f['py']), f['ret'])


def _classes(phase):
    for c in plan['classes']:
        try:
            cls = resolve(c['py'])
        except AttributeError:
            if phase == 1:
                viol('class not found in module', path=c['py'])
            continue
        _class(c, cls, phase)


def _class(c, cls, phase):
    if True:
        where = '.'.join(c['py'])
        if phase == 1 and c['base'] and c['base'] in plan['class_table']:
            OUT['checked'] += 1
            try:
                base = resolve(plan['class_table'][c['base']]['py'])
                if not issubclass(cls, base):
                    viol('derived class is not registered with its declared base', cls=where, base=c['base'])
            except AttributeError:
                pass
        for ct in (c['ctors'] if phase == 1 else []):
            def make(*a, **k):
                o = cls(*a, **k)
                POOL.setdefault(c['class'], []).append(o)
                EXACT.setdefault(c['class'], []).append(o)
                return o
            # constructors: entity Class::Class, receiver = the new object -> unknown tag: pass None
            call_ctor(make, ct, where)
        objs = None
        for meth in (c['methods'] if phase == 2 else []):
            try:
                obj = make_object(c['class'], exact=True)
            except NoValue as e:
                skip('no instance of ' + c['class'])
                continue
            fn = getattr(obj, meth['py'], None)
            if fn is None:
                viol('method binding missing', cls=where, name=meth['py'])
                continue
            call_variants(fn, meth['args'], meth['entity'], '#%d' % origin(obj), where + '.' + meth['py'], meth['ret'])
            if meth['is_print']:
                try:
                    r = repr(obj)
                    OUT['checked'] += 1
                    TRACE()
                except Exception:
                    pass
        for st in (c['statics'] if phase == 1 else []):
            fn = getattr(cls, st['py'], None)
            if fn is None:
                viol('static method binding missing', cls=where, name=st['py'])
                continue
            call_variants(fn, st['args'], st['entity'], 'static', where + '.' + st['py'], st['ret'])
        for p in (c['props'] if phase == 2 else []):
            if unexposed(p['type']):
                skip('property type outside the top namespace')
                continue
            try:
                obj = make_object(c['class'], exact=True)
            except NoValue:
                skip('no instance of ' + c['class'])
                continue
            try:
                old = getattr(obj, p['name'])
            except AttributeError:
                viol('property binding missing', cls=where, name=p['name'])
                continue
            except Exception as e:
                viol('property read raised', cls=where, name=p['name'], error=str(e)[:120])
                continue
            try:
                v, _ = value_for(p['type'], 2)
            except NoValue as e:
                skip(str(e)[:60])
                continue
            OUT['checked'] += 1
            try:
                setattr(obj, p['name'], v)
                wrote = True
            except AttributeError:
                wrote = False
            except Exception as e:
                viol('property write raised', cls=where, name=p['name'], error=str(e)[:120])
                continue
            if p['const'] and wrote:
                viol('const property is writable from Python', cls=where, name=p['name'])
            if not p['const']:
                if not wrote:
                    viol('non-const property is read-only in Python', cls=where, name=p['name'])
                else:
                    back = getattr(obj, p['name'])
                    if p['type']['cat'] == 'object':
                        same = origin(back) == origin(v)
                    elif p['type']['cat'] == 'double':
                        same = abs(back - v) < 1e-12
                    elif p['type']['cat'] == 'enum':
                        same = int(back) == int(v)
                    else:
                        same = back == v
                    if not same:
                        viol('property read-back differs from the value written', cls=where, name=p['name'],
                             wrote=repr(v)[:60], read=repr(back)[:60])
        if phase == 2 and c.get('dunders'):
            try:
                obj = make_object(c['class'], exact=True)
            except NoValue:
                obj = None
                skip('no instance of ' + c['class'])
            if obj is not None:
                # the library class iterates over 3, 5, 8
                for nm in c['dunders']:
                    OUT['checked'] += 1
                    OUT['dunder_calls'] = OUT.get('dunder_calls', 0) + 1
                    try:
                        if nm == 'len' and len(obj) != 3:
                            viol('__len__ does not return the number of elements', cls=where, actual=len(obj))
                        elif nm == 'contains' and ((5 in obj) is not True or (4 in obj) is not False):
                            viol('__contains__ does not answer membership', cls=where, five=(5 in obj), four=(4 in obj))
                        elif nm == 'iter' and list(iter(obj)) != [3, 5, 8]:
                            viol('__iter__ does not iterate over the elements', cls=where, actual=list(iter(obj))[:6])
                    except Exception as e:
                        viol('dunder method raised', cls=where, name=nm, error='%s: %s' % (type(e).__name__, str(e)[:160]))
                TRACE()
        for op in (c['ops'] if phase == 2 else []):
            try:
                a = make_object(c['class'], exact=True)
            except NoValue:
                skip('no instance of ' + c['class'])
                continue
            sym = op['op']
            TRACE()
            try:
                if op['unary']:
                    res = -a if sym == '-' else +a
                    sers = []
                elif sym in ('[]', '()'):
                    v, s = value_for(op['args'][0]['type'], 1)
                    res = a[v] if sym == '[]' else a(v)
                    sers = [s]
                else:
                    b = make_object(c['class'], exact=True)
                    import operator as O
                    f = {'+': O.add, '-': O.sub, '*': O.mul, '/': O.truediv, '%': O.mod, '^': O.xor, '&': O.and_,
                         '|': O.or_, '<': O.lt, '>': O.gt, '<=': O.le, '>=': O.ge, '==': O.eq, '!=': O.ne,
                         '<<': O.lshift, '>>': O.rshift}.get(sym)
                    if f is None:
                        skip('operator ' + sym)
                        continue
                    res = f(a, b)
                    sers = ['#%d@%d' % (origin(b), m._verif_tag(b))]     # operator arguments are const references
            except NoValue as e:
                skip(str(e)[:60])
                continue
            except Exception as e:
                viol('operator call raised', cls=where, op=sym, error='%s: %s' % (type(e).__name__, str(e)[:160]))
                continue
            OUT['calls'] += 1
            OUT['bindings'] += 1
            ret = expect_trace(TRACE(), op['entity'], '#%d' % origin(a), sers, where + ' operator' + sym)
            if ret is not None:
                check_result(res, op['ret'], ret, where + ' operator' + sym)


def call_ctor(make, ct, where):
    args = ct['args']
    n = len(args)
    try:
        vals = [value_for(a['type'], i) for i, a in enumerate(args)]
    except NoValue as e:
        skip(str(e)[:60])
        return
    OUT['bindings'] += 1
    TRACE()
    try:
        o = make(*[v for v, _ in vals])
    except Exception as e:
        viol('constructor call raised', where=where, error='%s: %s' % (type(e).__name__, str(e)[:200]))
        return
    OUT['calls'] += 1
    expect_trace(TRACE(), ct['entity'], '#%d' % origin(o), [s for _, s in vals], where + ' constructor')
    if n:
        try:
            vals = [value_for(a['type'], i + 2) for i, a in enumerate(args)]
            order = list(range(n))
            R.shuffle(order)
            kw = {args[j]['name']: vals[j][0] for j in order}
            TRACE()
            o = make(**kw)
            OUT['calls'] += 1
            OUT['kw_calls'] += 1
            expect_trace(TRACE(), ct['entity'], '#%d' % origin(o), [s for _, s in vals], where + ' constructor (keywords)')
        except NoValue:
            pass
        except Exception as e:
            viol('constructor keyword call raised', where=where, error='%s: %s' % (type(e).__name__, str(e)[:200]))
    ndef = 0
    for a in reversed(args):
        if a['default'] is None:
            break
        ndef += 1
    for k in range(1, ndef + 1):
        try:
            vals = [value_for(a['type'], i + 4) for i, a in enumerate(args[:n - k])]
            TRACE()
            o = make(*[v for v, _ in vals])
            OUT['calls'] += 1
            OUT['default_calls'] += 1
            want = [s for _, s in vals] + [default_ser(a['default'], a['type']) for a in args[n - k:]]
            expect_trace(TRACE(), ct['entity'], '#%d' % origin(o), want, where + ' constructor (omitting %d)' % k)
        except NoValue:
            return
        except Exception as e:
            viol('constructor call omitting defaults raised', where=where, omitted=k,
                 error='%s: %s' % (type(e).__name__, str(e)[:200]))


try:
    run()
    # live-object accounting: drop every Python reference, collect, nothing may remain
    POOL.clear()
    EXACT.clear()
    import gc
    gc.collect()
    live = {k: v for k, v in LIVE().items() if v != 0}
    OUT['live_after_release'] = live
    if any(v < 0 for v in live.values()):
        viol('negative live-object count (double destruction)', live=live)
except Exception as e:  # driver error: report, the harness treats it as inconclusive
    import traceback
    OUT['driver_error'] = traceback.format_exc()[-1500:]
sys.stdout.flush()
print('\nVERIF_RESULT ' + json.dumps(OUT, default=str))
