#pragma once
#include <gtsam/base/Vector.h>
namespace gtsam {
struct Point3 {
  double v[3] = {0, 0, 0};
  Point3() {}
  Point3(const Vector& x) { if (x.size() != 3) { fprintf(stderr, "standin: Point3 from a vector of size %d\n", x.size()); abort(); } for (int i = 0; i < 3; i++) v[i] = x(i); }
  operator Vector() const { Vector r(3); for (int i = 0; i < 3; i++) r(i) = v[i]; return r; }
  double& operator()(int i) { return v[i]; }
  double operator()(int i) const { return v[i]; }
  int size() const { return 3; }
};
}  // namespace gtsam
