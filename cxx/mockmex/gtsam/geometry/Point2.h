#pragma once
#include <gtsam/base/Vector.h>
namespace gtsam {
struct Point2 {
  double v[2] = {0, 0};
  Point2() {}
  Point2(const Vector& x) { if (x.size() != 2) { fprintf(stderr, "standin: Point2 from a vector of size %d\n", x.size()); abort(); } v[0] = x(0); v[1] = x(1); }
  operator Vector() const { Vector r(2); r(0) = v[0]; r(1) = v[1]; return r; }
  double& operator()(int i) { return v[i]; }
  double operator()(int i) const { return v[i]; }
  int size() const { return 2; }
};
}  // namespace gtsam
