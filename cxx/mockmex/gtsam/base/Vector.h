// Stand-in for gtsam/base/Vector.h (Eigen is not installed): bounds-checked dynamic vector of doubles.
#pragma once
#include <cstdint>
#include <cstdio>
#include <cstdlib>
#include <iostream>
#include <memory>
#include <vector>
namespace gtsam {
struct Vector {
  std::vector<double> d;
  Vector() {}
  explicit Vector(int m) : d((size_t)(m < 0 ? 0 : m)) {}
  int size() const { return (int)d.size(); }
  double& operator()(int i) { if (i < 0 || i >= size()) { fprintf(stderr, "standin: Vector index out of bounds\n"); abort(); } return d[(size_t)i]; }
  double operator()(int i) const { if (i < 0 || i >= size()) { fprintf(stderr, "standin: Vector index out of bounds\n"); abort(); } return d[(size_t)i]; }
  bool operator==(const Vector& o) const { return d == o.d; }
};
}  // namespace gtsam
