#pragma once
#include <memory>
#include <iostream>
#include <cstdint>
#include <string>
