// Stand-in for gtsam/base/Matrix.h: bounds-checked dynamic matrix (row-major storage, like any other
// storage order it is opaque to matlab.h which only uses operator()(i,j), rows(), cols()).
#pragma once
#include <cstdio>
#include <cstdlib>
#include <vector>
namespace gtsam {
struct Matrix {
  int r = 0, c = 0;
  std::vector<double> d;
  Matrix() {}
  Matrix(int m, int n) : r(m), c(n), d((size_t)m * (size_t)n) {}
  int rows() const { return r; }
  int cols() const { return c; }
  double& operator()(int i, int j) { if (i < 0 || i >= r || j < 0 || j >= c) { fprintf(stderr, "standin: Matrix index out of bounds\n"); abort(); } return d[(size_t)i * c + j]; }
  double operator()(int i, int j) const { if (i < 0 || i >= r || j < 0 || j >= c) { fprintf(stderr, "standin: Matrix index out of bounds\n"); abort(); } return d[(size_t)i * c + j]; }
  bool operator==(const Matrix& o) const { return r == o.r && c == o.c && d == o.d; }
};
}  // namespace gtsam
