#include "mockmex.h"
#include <algorithm>
#include <cstdarg>
#include <cstdio>
#include <cstring>
#include <set>
namespace mock {
std::function<int(int, mxArray**, int, mxArray**, const std::string&)> callMATLAB;
std::map<std::string, mxArray*> globals;
std::vector<void (*)()> atexit_fns;
std::string printed;
static std::set<mxArray*> all;                  // every live array
static std::vector<std::set<mxArray*>> frames;  // temporaries per nested gateway call
size_t live_arrays() { return all.size(); }
static mxArray* reg(mxArray* a) { all.insert(a); if (!frames.empty()) frames.back().insert(a); return a; }
static void unframe_deep(mxArray* a) {
  for (auto& f : frames) f.erase(a);
  for (auto& p : a->props) unframe_deep(p.second);
  for (auto f : a->fields) if (f) unframe_deep(f);
}
void destroy(mxArray* a) {
  if (!a) return;
  if (!all.count(a)) { fprintf(stderr, "mock: mxArray destroyed twice or never created (%p)\n", (void*)a); abort(); }
  all.erase(a);
  for (auto& f : frames) f.erase(a);
  for (auto& p : a->props) destroy(p.second);
  for (auto f : a->fields) destroy(f);
  delete a;
}
void begin_call() { frames.emplace_back(); }
void end_call(mxArray** keep, int nkeep) {
  std::set<mxArray*> fr = frames.back();
  frames.pop_back();
  for (int i = 0; i < nkeep; i++) if (keep[i]) { fr.erase(keep[i]); std::function<void(mxArray*)> drop = [&](mxArray* a) { fr.erase(a); for (auto& p : a->props) drop(p.second); for (auto f : a->fields) if (f) drop(f); }; drop(keep[i]); }
  // children are destroyed with their parents
  std::set<mxArray*> children;
  for (auto a : fr) { for (auto& p : a->props) children.insert(p.second); for (auto f : a->fields) if (f) children.insert(f); }
  for (auto a : fr) if (!children.count(a) && all.count(a) && !a->persistent) destroy(a);
  if (!frames.empty()) for (int i = 0; i < nkeep; i++) if (keep[i] && all.count(keep[i])) frames.back().insert(keep[i]);
}
mxArray* make_object(const std::string& cls) { auto a = new mxArray_tag; a->cls = mxOBJECT_CLASS; a->m = a->n = 1; a->objclass = cls; return reg(a); }
void set_prop(mxArray* obj, const std::string& name, mxArray* v) {
  auto it = obj->props.find(name);
  if (it != obj->props.end() && it->second != v) destroy(it->second);
  obj->props[name] = v;
  unframe_deep(v);
}
size_t elsize(mxClassID c) {
  switch (c) {
    case mxDOUBLE_CLASS: case mxINT64_CLASS: case mxUINT64_CLASS: return 8;
    case mxSINGLE_CLASS: case mxINT32_CLASS: case mxUINT32_CLASS: return 4;
    case mxINT16_CLASS: case mxUINT16_CLASS: return 2;
    default: return 1;   // char payload is kept as bytes (matlab.h relies on mxChar==char only through mxArrayToString)
  }
}
mxArray* numeric(size_t m, size_t n, mxClassID c) {
  auto a = new mxArray_tag; a->cls = c; a->m = m; a->n = n;
  a->data.assign(m * n * elsize(c), 0);   // exact size: an access past it is an ASan report
  return reg(a);
}
mxArray* chars(const std::string& s, size_t m) { auto a = new mxArray_tag; a->cls = mxCHAR_CLASS; a->m = s.empty() ? 0 : m; a->n = m ? s.size() / m : 0; a->data.assign(s.begin(), s.end()); return reg(a); }
static mxArray* dup(const mxArray* s) {
  auto a = new mxArray_tag(*s);
  a->persistent = false;
  reg(a);
  for (auto& p : a->props) { p.second = dup(p.second); for (auto& f : frames) f.erase(p.second); }
  for (auto& f : a->fields) if (f) { f = dup(f); for (auto& fr : frames) fr.erase(f); }
  return a;
}
void destroy_globals() { for (auto& g : globals) destroy(g.second); globals.clear(); }
}  // namespace mock
using namespace mock;
extern "C" {
mxArray* mxCreateNumericArray(mwSize ndim, const mwSize* dims, mxClassID c, mxComplexity) { size_t m = ndim > 0 ? dims[0] : 1, n = ndim > 1 ? dims[1] : 1; return numeric(m, n, c); }
mxArray* mxCreateNumericMatrix(mwSize m, mwSize n, mxClassID c, mxComplexity) { return numeric(m, n, c); }
mxArray* mxCreateDoubleMatrix(mwSize m, mwSize n, mxComplexity) { return numeric(m, n, mxDOUBLE_CLASS); }
mxArray* mxCreateDoubleScalar(double v) { auto a = numeric(1, 1, mxDOUBLE_CLASS); memcpy(a->data.data(), &v, 8); return a; }
mxArray* mxCreateString(const char* s) { return chars(std::string(s)); }
mxArray* mxCreateStructMatrix(mwSize m, mwSize n, int, const char**) { auto a = numeric(0, 0, mxSTRUCT_CLASS); a->m = m; a->n = n; return a; }
mxArray* mxDuplicateArray(const mxArray* a) { return dup(a); }
void mxDestroyArray(mxArray* a) { if (a) destroy(a); }
void* mxGetData(const mxArray* a) { if (!a) { fprintf(stderr, "mock: mxGetData(NULL)\n"); abort(); } return (void*)a->data.data(); }
double* mxGetPr(const mxArray* a) { return (double*)mxGetData(a); }
double mxGetScalar(const mxArray* a) {
  if (a->data.empty()) return 0;
  const void* p = a->data.data();
  switch (a->cls) {
    case mxDOUBLE_CLASS: { double v; memcpy(&v, p, 8); return v; }
    case mxSINGLE_CLASS: { float v; memcpy(&v, p, 4); return v; }
    case mxINT8_CLASS: return *(const int8_t*)p;
    case mxUINT8_CLASS: case mxLOGICAL_CLASS: case mxCHAR_CLASS: return *(const uint8_t*)p;
    case mxINT16_CLASS: { int16_t v; memcpy(&v, p, 2); return v; }
    case mxUINT16_CLASS: { uint16_t v; memcpy(&v, p, 2); return v; }
    case mxINT32_CLASS: { int32_t v; memcpy(&v, p, 4); return v; }
    case mxUINT32_CLASS: { uint32_t v; memcpy(&v, p, 4); return v; }
    case mxINT64_CLASS: { int64_t v; memcpy(&v, p, 8); return (double)v; }
    case mxUINT64_CLASS: { uint64_t v; memcpy(&v, p, 8); return (double)v; }
    default: return 0;
  }
}
size_t mxGetM(const mxArray* a) { if (!a) { fprintf(stderr, "mock: mxGetM(NULL)\n"); abort(); } return a->m; }
size_t mxGetN(const mxArray* a) { if (!a) { fprintf(stderr, "mock: mxGetN(NULL)\n"); abort(); } return a->n; }
mxClassID mxGetClassID(const mxArray* a) { if (!a) { fprintf(stderr, "mock: mxGetClassID(NULL) (MATLAB would crash)\n"); abort(); } return a->cls; }
bool mxIsDouble(const mxArray* a) { return a->cls == mxDOUBLE_CLASS; }
bool mxIsComplex(const mxArray* a) { return a->complex_; }
char* mxArrayToString(const mxArray* a) { if (a->cls != mxCHAR_CLASS) return nullptr; char* r = (char*)malloc(a->data.size() + 1); if (!a->data.empty()) memcpy(r, a->data.data(), a->data.size()); r[a->data.size()] = 0; return r; }
int mxGetString(const mxArray* a, char* buf, mwSize buflen) { if (a->cls != mxCHAR_CLASS || buflen == 0) return 1; size_t L = std::min(a->data.size(), (size_t)buflen - 1); if (L) memcpy(buf, a->data.data(), L); buf[L] = 0; return a->data.size() > (size_t)buflen - 1; }
void mxFree(void* p) { free(p); }
mxArray* mxGetProperty(const mxArray* a, mwSize, const char* name) { if (!a || a->cls != mxOBJECT_CLASS) return nullptr; auto it = a->props.find(name); if (it == a->props.end()) return nullptr; return dup(it->second); }
mxArray* mxGetField(const mxArray* a, mwSize, const char* name) { for (size_t i = 0; i < a->fieldnames.size(); i++) if (a->fieldnames[i] == name) return a->fields[i]; return nullptr; }
int mxAddField(mxArray* a, const char* name) { for (size_t i = 0; i < a->fieldnames.size(); i++) if (a->fieldnames[i] == name) return (int)i; a->fieldnames.push_back(name); a->fields.push_back(nullptr); return (int)a->fields.size() - 1; }
void mxSetFieldByNumber(mxArray* a, mwSize, int f, mxArray* v) { if (a->fields[f]) destroy(a->fields[f]); a->fields[f] = v; for (auto& fr : frames) fr.erase(v); }
int mexPrintf(const char* fmt, ...) { char buf[4096]; va_list ap; va_start(ap, fmt); int r = vsnprintf(buf, sizeof buf, fmt, ap); va_end(ap); printed += buf; return r; }
void mexErrMsgTxt(const char* msg) { throw MexError("", msg); }
void mexErrMsgIdAndTxt(const char* id, const char* fmt, ...) { char buf[4096]; va_list ap; va_start(ap, fmt); vsnprintf(buf, sizeof buf, fmt, ap); va_end(ap); throw MexError(id, buf); }
int mexCallMATLAB(int nlhs, mxArray* plhs[], int nrhs, mxArray* prhs[], const char* name) { if (!callMATLAB) throw MexError("mock", "no MATLAB session attached"); return callMATLAB(nlhs, plhs, nrhs, prhs, name); }
int mexAtExit(void (*fn)(void)) { if (std::find(atexit_fns.begin(), atexit_fns.end(), fn) == atexit_fns.end()) atexit_fns.push_back(fn); return 0; }
const mxArray* mexGetVariablePtr(const char*, const char* name) { auto it = globals.find(name); return it == globals.end() ? nullptr : it->second; }
mxArray* mexGetVariable(const char*, const char* name) { auto it = globals.find(name); return it == globals.end() ? nullptr : dup(it->second); }
int mexPutVariable(const char*, const char* name, const mxArray* v) { auto it = globals.find(name); mxArray* c = dup(v); c->persistent = true; for (auto& fr : frames) fr.erase(c); std::function<void(mxArray*)> un = [&](mxArray* a) { for (auto& fr : frames) fr.erase(a); for (auto f : a->fields) if (f) un(f); }; un(c); if (it != globals.end()) destroy(it->second); globals[name] = c; return 0; }
}
