// Mock MEX API (prototype)
#pragma once
#include <stddef.h>
#include <stdint.h>
#ifdef __cplusplus
extern "C" {
#endif
typedef size_t mwSize;
typedef int32_t int32_T;
typedef uint16_t mxChar;
typedef enum { mxUNKNOWN_CLASS=0, mxCELL_CLASS, mxSTRUCT_CLASS, mxLOGICAL_CLASS, mxCHAR_CLASS, mxVOID_CLASS, mxDOUBLE_CLASS, mxSINGLE_CLASS, mxINT8_CLASS, mxUINT8_CLASS, mxINT16_CLASS, mxUINT16_CLASS, mxINT32_CLASS, mxUINT32_CLASS, mxINT64_CLASS, mxUINT64_CLASS, mxFUNCTION_CLASS, mxOBJECT_CLASS=100 } mxClassID;
typedef enum { mxREAL=0, mxCOMPLEX } mxComplexity;
typedef struct mxArray_tag mxArray;
mxArray* mxCreateNumericArray(mwSize ndim, const mwSize* dims, mxClassID c, mxComplexity f);
mxArray* mxCreateNumericMatrix(mwSize m, mwSize n, mxClassID c, mxComplexity f);
mxArray* mxCreateDoubleMatrix(mwSize m, mwSize n, mxComplexity f);
mxArray* mxCreateDoubleScalar(double v);
mxArray* mxCreateString(const char* s);
mxArray* mxCreateStructMatrix(mwSize m, mwSize n, int nfields, const char** names);
mxArray* mxDuplicateArray(const mxArray* a);
void mxDestroyArray(mxArray* a);
void* mxGetData(const mxArray* a);
double* mxGetPr(const mxArray* a);
double mxGetScalar(const mxArray* a);
size_t mxGetM(const mxArray* a);
size_t mxGetN(const mxArray* a);
mxClassID mxGetClassID(const mxArray* a);
bool mxIsDouble(const mxArray* a);
bool mxIsComplex(const mxArray* a);
char* mxArrayToString(const mxArray* a);
int mxGetString(const mxArray* a, char* buf, mwSize buflen);
void mxFree(void* p);
mxArray* mxGetProperty(const mxArray* a, mwSize idx, const char* name);
mxArray* mxGetField(const mxArray* a, mwSize idx, const char* name);
int mxAddField(mxArray* a, const char* name);
void mxSetFieldByNumber(mxArray* a, mwSize idx, int field, mxArray* v);
int mexPrintf(const char* fmt, ...);
void mexErrMsgTxt(const char* msg);
void mexErrMsgIdAndTxt(const char* id, const char* fmt, ...);
int mexCallMATLAB(int nlhs, mxArray* plhs[], int nrhs, mxArray* prhs[], const char* name);
int mexAtExit(void (*fn)(void));
const mxArray* mexGetVariablePtr(const char* ws, const char* name);
mxArray* mexGetVariable(const char* ws, const char* name);
int mexPutVariable(const char* ws, const char* name, const mxArray* v);
#ifdef __cplusplus
}
#endif
