// Mock MEX runtime (harness-owned): just enough of MATLAB's C API for matlab.h and the generated
// gateway, with MATLAB's memory rule (arrays created during a gateway call that are neither outputs
// nor made persistent are destroyed when the call returns; mxGetProperty returns a copy).
#pragma once
#include "mex.h"
#include <functional>
#include <map>
#include <stdexcept>
#include <string>
#include <vector>
struct mxArray_tag {
  mxClassID cls = mxUNKNOWN_CLASS;
  size_t m = 0, n = 0;
  std::vector<unsigned char> data;         // numeric / logical / char payload
  std::string objclass;                    // objects: MATLAB class name (also enum class name)
  std::map<std::string, mxArray*> props;   // object properties (owned)
  std::vector<std::string> fieldnames;     // struct
  std::vector<mxArray*> fields;            // struct 1x1 (owned)
  bool persistent = false;
  bool complex_ = false;
};
struct MexError : std::runtime_error {
  std::string id;
  MexError(const std::string& i, const std::string& m) : std::runtime_error(m), id(i) {}
};
namespace mock {
extern std::function<int(int, mxArray**, int, mxArray**, const std::string&)> callMATLAB;
extern std::map<std::string, mxArray*> globals;
extern std::vector<void (*)()> atexit_fns;
extern std::string printed;               // everything sent to mexPrintf
size_t live_arrays();
void begin_call();                         // arrays created from now on are temporaries of this call
void end_call(mxArray** keep, int nkeep);  // destroy the call's temporaries except keep[] (deep)
mxArray* make_object(const std::string& cls);
void set_prop(mxArray* obj, const std::string& name, mxArray* v);  // takes ownership of v
mxArray* numeric(size_t m, size_t n, mxClassID c);
mxArray* chars(const std::string& s, size_t m = 1);
void destroy(mxArray* a);
void destroy_globals();
size_t elsize(mxClassID c);
}  // namespace mock
