#!/venv/bin/python
"""Triage-time tool (never run by a check): (re)generates known_findings.json from the table below.

For every OPEN finding the witness is replayed through the probe handler of its check on the current
/repo tree and the observed signature is printed next to the recorded one; with --record the observed
signatures are written into the file (do this only after reading them).  Fixed findings keep their
witness for documentation; they suppress nothing.
"""
import importlib
import json
import os
import subprocess
import sys

sys.path.insert(0, '/verif')
sys.path.insert(0, '/verif/.deps')
sys.path.insert(0, '/repo')
from vlib import project, spec as S, tool  # noqa: E402
from vlib.runner import Ctx  # noqa: E402


def model_of(text):
    m, _ = project.project(tool.parse(text))
    return S.to_json(m)


def sha(msg):
    out = subprocess.run(['git', '-C', '/repo', 'log', '--format=%h %s'], stdout=subprocess.PIPE).stdout.decode()
    for line in out.split('\n'):
        if msg in line:
            return line.split()[0]
    raise SystemExit('no commit matching ' + msg)


FIXED = [
    ('D19', 'C18', 'unwrap_ptr returns the wrapped object', "unwrap_ptr<Class>() returned the address of the handle's mxArray data instead of the wrapped C++ object (every raw-pointer '@' parameter designated a different object)"),
    ('D21', 'C01', "parse 'operator=='", "'X operator==(const X& o) const;' inside a class was parsed as a property named 'operator' with default '=(const X& o) const' (Variable listed before Operator in the member alternation)"),
    ('D21b', 'C12', "a variable cannot be named 'operator'", "with a comment glued to the closing const of an operator== declaration the Variable alternative matched more text and the declaration became a property again: the parse depended on the layout"),
    ('D42', 'C12', 'keep tab characters', "a tab inside a default value was expanded to a column-dependent number of blanks (pyparsing expandtabs): default text and both wrappers depended on the layout in front of it"),
    ('D2', 'C02', 'scoped template use', "T::Type with T=double became double::doubleype: the parameter's spelling was replaced as a substring of the whole scoped name"),
    ('D4', 'C08', 'capitalise only the first character', "instantiation names upper-cased every occurrence of the argument name's first letter (std::optional<double> -> OptiOnaldOuble)"),
    ('D37', 'C08', 'function template instantiations refer to Name<args>', "function templates instantiated with a templated argument were called as f<std::vectordouble> (instantiated name instead of the C++ spelling)"),
    ('D7', 'C09', 'namespaced variable with an initialiser', "namespace n { const double k = -9.81; } produced m_n.attr(\"k\") = n::-9.81; which does not compile"),
    ('D34', 'C15', 'ignores its class-scoped enums', "pybind: ignoring a class kept the py::enum_ statements of its class-scoped enums (referring to the undeclared class variable)"),
    ('D15', 'C16', 'separates the interface files', "MATLAB wrap([f1, f2]) lost the first line of f2 when f1 ended in a // comment without a final newline"),
    ('D16', 'C16', 'accept a missing --ignore', "both scripts failed with TypeError when --ignore was omitted"),
    ('D14', 'C15', 'ignore list works for classes at global scope', "MATLAB ignore of a global-scope class removed only the collector ('Name') or raised TypeError ('::Name')"),
    ('D29', 'C12', "'std :: pair<A,B>'", "with a blank or comment between std and :: a pair return was parsed as a templated type named std::pair"),
    ('D25', 'C10', 'nested namespaces go to', "class-scoped enum of a::b::C was written to +ab/+C/E.m instead of +a/+b/+C/E.m"),
    ('D17', 'C17', 'C++ (not Python) string escapes', "docstrings with non-printable characters were escaped with Python repr rules (\\xa0 decodes to one byte; \\x7fa1 is ill-formed C++)"),
    ('D18', 'C14', 'docstring overload bookkeeping is reset', "a PybindWrapper reused for a second file with XML docs and equal-named overloads raised IndexError (XMLDocParser._memory survived between wrap_file calls)"),
    ('D24', 'C14', 'reads and writes files as UTF-8', "MATLAB generation of an input with a non-ASCII character failed with UnicodeDecodeError when the locale encoding is ASCII (files opened with the locale encoding)"),
    ('D27', 'C17', 'tolerates parameters without description', "a Doxygen member with an empty <parameterdescription> or an omitted optional parameter with only <defname> raised AttributeError instead of giving a docstring"),
    ('D39', 'C02', 'dunder method arguments of templated classes', "arguments of dunder methods of a templated class were not instantiated (__contains__(T key) kept T)"),
    ('D6', 'C03', 'opened again reuses its Python submodule', "a reopened namespace declared its submodule variable twice (pybind11::module m_a = ... emitted per namespace block)"),
    ('D20', 'C10', 'MATLAB deserialization names the class by its package path', "serialization support of a global-scope class emitted `.Name.string_deserialize`, of a class in a::b `ab.C` (loadobj and the handle name of the deserialised object)"),
    ('D11', 'C06', 'static methods assign the outputs their return type has', "MATLAB static methods always assigned varargout{1}, also for void and pair returns"),
    ('D23', 'C08', "'unsigned char' arguments contain no blank", "instantiated names contained a blank for `unsigned char` arguments (MVunsigned char)"),
    ('D22', 'C06', 'templated method returning a pair no longer crashes', "a templated method returning a pair crashed the MATLAB generator (method rebound to a string)"),
    ('D1', 'C02', 'instantiated at any depth', "a template parameter nested two or more levels deep inside template arguments was not substituted"),
    ('D3', 'C02', 'This is replaced inside template arguments', "`This` inside template arguments (std::vector<This>) was not replaced"),
    ('D45', 'C02', 'scoped template use inside template arguments', "scoped use T::X inside template arguments was not substituted"),
    ('D38', 'C02', 'This inside a templated base class', "`This` inside a templated base class was replaced by the namespace instead of the class"),
    ('D46', 'C02', 'keeps the template arguments on the scope', "scoped use T::X with a templated concrete type put the template arguments after the member (Foo::X<int>)"),
    ('D5', 'C08', 'typedef finds its template', "a typedef of a template declared in a namespace that had been instantiated earlier failed (Cannot find class)"),
    ('D48', 'C02', 'only the leading component of a scoped name', "a qualified name whose last component is spelled like a template parameter (nsT::TT with TT a parameter) was rewritten (nsT::aab5): any component, not only the leading one, was taken for the parameter"),
    ('D52', 'C10', 'no longer crashes the MATLAB generator', "MATLAB generation raised TypeError (unhashable type: 'Typename') for a constructor or free-function parameter whose template argument is a template parameter (A(std::vector<T> x)): the instantiator stored a Typename object in Typename.name"),
    ('D53', 'C16', 'wrap_submodule writes <stem>.cpp also for an interface file called', "wrap_submodule of an additional interface file called <name>.h wrote its C++ to a file <name>.h in the working directory (over the input when run next to it) instead of <name>.cpp"),
    ('D54', 'C02', 'T::Rebind<int>', "a scoped use of a template parameter whose member is itself a template-id (T::Rebind<int>) crashed the instantiator (AttributeError: 'TemplatedType' object has no attribute 'is_basic')"),
]

# open findings: key, property, probe handler, what (printed in the KNOWN-FINDING line), mechanism, witness builder
OPEN = []


def finding(key, prop, probe, what, mechanism, witness):
    OPEN.append({'key': key, 'property': prop, 'status': 'open', 'probe': probe, 'what': what, 'mechanism': mechanism,
                 'witness': witness})


def inst(text):
    return {'model': model_of(text), 'text': text}


# ---- C02
finding('D49', 'C02', 'inst-text', 'a qualified name inside template arguments whose last component is spelled like a template parameter (vector<a::T>) is rewritten',
        'the template-argument loop compares Typename.name only (pinned by tests/expected/matlab/class_wrapper.cpp: This::M -> Fun<double>::double)',
        inst('template<T = {double}> class A { void f(std::vector<a::T> v); };'))
# ---- C08
# ---- C01 / C07
finding('D47', 'C07', 'accept-text', 'qualifier tokens inside typedef / instantiation-list arguments are accepted and dropped',
        'TypedefTemplateInstantiation and Template keep only the Typename of templated arguments',
        {'text': 'template<T> class A { void g(); };\ntypedef A<const B*> C;\n'})
# ---- C03
# ---- C09
finding('D8', 'C12', 'two-texts', 'a comment glued without whitespace to the end of a default value becomes part of the default text',
        'DEFAULT_ARG words are Word(printables) and include "/*" and "//"',
        {'a': 'void f(int a = 0 /* x */, int b);\n', 'b': 'void f(int a = 0/* x */, int b);\n'})
finding('D36', 'C09', 'compile-text', 'a print method not declared const breaks the generated __repr__ (const self)',
        '_wrap_print always takes const Class& self',
        {'interface': 'class P { P(); void print(string s); };', 'lib': 'struct P { P(); void print(std::string s); long vt_origin; static std::string vt_name(); };'})
finding('D43', 'C09', 'compile-text', 'serializable() (not only serialize()) emits pickle support that needs a default constructor',
        'both marker methods go through _wrap_serialization',
        {'interface': 'class S { S(int a); void serializable(); };', 'lib': 'struct S { S(int a); long vt_origin; static std::string vt_name(); };', 'ser': True})
finding('D44', 'C09', 'compile-text', 'two classes of the same name in different namespaces that both have class-scoped enums declare the same C++ variable',
        'the instance variable of a class with enums is its lower-cased bare name',
        {'interface': 'class W { enum K { a }; }; namespace n { class W { enum K { a }; }; }',
         'lib': 'struct W { enum K { a }; long vt_origin; static std::string vt_name(); }; namespace n { struct W { enum K { a }; long vt_origin; static std::string vt_name(); }; }'})
# ---- C17
# ---- C06
M = 'matlab-marshal'
finding('D9', 'C06', M, 'a `const string&` parameter is unwrapped as an object handle', 'is_ref() treats string like a class',
        inst('class A { A(); void f(const string& s) const; };'))
finding('D12', 'C06', M, 'templated free functions are called by their instantiated name (tfDouble)', 'wrap_collector_function_return uses method.name',
        inst('template<T = {double}> T tf(T x);'))
finding('D13', 'C06', M, 'templated static methods lose their explicit template arguments', 'static branch uses original.name without instantiations',
        inst('class A { template<U = {int}> static U ts(); };'))
finding('D28', 'C06', M, 'a templated class used as parameter type gets guard / handle names from its C++ spelling', '_format_type_name concatenates instantiations',
        inst('namespace ns { template<T = {int}> class Tpl { Tpl(); }; class U { U(); void f(const ns::Tpl<int>& t) const; }; }'))
finding('D30', 'C06', M, 'an enum half of a pair return is wrapped as an object', 'wrap_collector_function_return_types has no enum case',
        inst('namespace ns { enum Kind { a, b }; class A { A(); pair<ns::Kind, double> f() const; }; }'))
finding('D31', 'C06', M, 'enum parameters / returns of free functions are treated as class handles', 'is_enum needs the enclosing class',
        inst('namespace ns { enum Kind { a, b }; ns::Kind gk(ns::Kind k); }'))
finding('D33', 'C06', M, 'the setter of a shared-pointer property assigns *value', 'setter derefs whenever can_be_pointer()',
        inst('namespace ns { class O { O(); }; class A { A(); ns::O* pp; }; }'))
finding('D41', 'C06', M, "parameters of type unsigned char are guarded with isa(x,'unsigned char'), which no MATLAB value satisfies",
        "data_type maps 'unsigned char' to itself", inst('class A { A(); void f(unsigned char c) const; };'))
# ---- C10
# ---- C05
finding('D50', 'C05', 'toolbox-ids', 'overloads of a free function declared in two blocks of the same (reopened) namespace: the function file of the later block overwrites the earlier one, whose routine keeps an id without call site',
        'wrap_namespace writes one <name>.m per namespace node', {'text': 'namespace a { int f(int x); }\nnamespace a { int f(int x, int y); }\n'})
# ---- C14
# ---- C04
finding('D51', 'C04', 'import-module', 'a print method with a required parameter gives __repr__ the same required parameter; a default value of that class type (whose repr pybind11 evaluates at registration) then makes the module fail at import',
        '_wrap_print copies print\'s signature into __repr__', {'interface': 'class P { P(); void print(string s) const; }; class Q { Q(); void f(P p = P()); };'})
finding('D40', 'C04', 'import-module', 'a default value of the class\'s own enum type makes the module fail at import (enum registered after the class)',
        'class-scoped enums are emitted after the class statement', {'interface': 'class A { enum K { a, b }; A(A::K k = A::K::a); };'})


def main():
    record = '--record' in sys.argv
    old = {}
    if os.path.exists('/verif/known_findings.json'):
        for k in json.load(open('/verif/known_findings.json')).get('findings', []):
            old[k['key']] = k
    out = {'format': 'entries: key, property, status (open|fixed), what, mechanism, probe (handler name in the check), witness (input replayed by the probe), signature (normalised difference recorded at triage). Open entries print one KNOWN-FINDING line when their witness reproduces with the same signature; fixed entries suppress nothing; the file is never written at check time.',
           'fixed': [], 'findings': []}
    for key, prop, msg, what in FIXED:
        c = sha(msg)
        out['fixed'].append('fixed: property=%s %s %s' % (prop, c, what))
        out['findings'].append({'key': key, 'property': prop, 'status': 'fixed', 'commit': c, 'what': what})
    for f in OPEN:
        mod = importlib.import_module('checks.' + f['property'])
        ctx = Ctx(f['property'], 'quick', 0, 0, 1, mod.plan('quick', 0))
        handlers = {}
        # collect the handler table of the check by calling its probes() with a capturing run_probes
        import vlib.probes as VP
        saved = VP.run_probes

        def capture(ctx_, pid, h):
            handlers.update(h)
        for m in (mod,):
            setattr(m, 'run_probes', capture)
        try:
            mod.probes(ctx)
        finally:
            setattr(mod, 'run_probes', saved)
        h = handlers.get(f['probe'])
        if h is None:
            print('!! no handler', f['probe'], 'in', f['property'])
            sig = None
        else:
            try:
                sig = h(f['witness'], ctx)
            except Exception as e:
                sig = 'exception %s: %s' % (type(e).__name__, str(e)[:120])
        prev = old.get(f['key'], {}).get('signature')
        print('%-5s %-4s %-22s observed=%r%s' % (f['key'], f['property'], f['probe'], (sig or '')[:150],
                                                '' if prev in (None, sig) else '   RECORDED=%r' % prev[:100]))
        f = dict(f)
        f['signature'] = sig if (record or prev is None) else prev
        out['findings'].append(f)
    if record:
        json.dump(out, open('/verif/known_findings.json', 'w'), indent=1)
        print('written')


if __name__ == '__main__':
    main()
